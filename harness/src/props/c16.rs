//! C16 — fetch statuses and get_transaction (transaction, block) answers are truthful.

use std::collections::{BTreeMap, BTreeSet, HashMap};

use ckb_network::{bytes::Bytes as P2pBytes, PeerIndex, SupportProtocols};
use ckb_types::{core::BlockView, packed::{self, Byte32}, prelude::*, H256};
use proptest::prelude::*;
use serde::{Deserialize, Serialize};
use serde_json::{json, Value};

use crate::lcv::pbt::*;
use crate::lcv::props::common::*;
use crate::lcv::sim::chain::Chain;
use crate::service::{ChainRpc, TransactionRpc};

#[derive(Debug, Clone, Serialize, Deserialize)]
pub enum Ev {
    /// kind: 0 on the proven chain, 1 only on the fork, 2 non-existent
    FetchHeader(u8, u16),
    FetchTx(u8, u16),
    GetTx(u8, u16),
    FetchTick,
    RefreshTick,
    Advance(u16),
    /// honest answer to the i-th request in flight
    Answer(u16),
    /// corrupted answer to the oldest in-flight fetch request (the peer gets banned and dropped)
    AnswerInvalid(u16),
    Disconnect(u16),
    Connect,
    Grow(u8),
    /// all peers move to the competing branch (a reorg shallower than last_n)
    SwitchBranch,
    /// filter sync makes progress
    Drain(u8),
}

#[derive(Debug, Clone, Serialize, Deserialize)]
pub struct Case {
    pub chain: ChainParams,
    pub net: NetParams,
    pub initial: Vec<RegSpec>,
    pub fork_depth: u8,
    pub events: Vec<Ev>,
    /// 0: nothing; 1 / 2: before event `bulk_at`, more than 1000 headers / transactions (mostly non-existent hashes) are
    /// requested at once, so that one fetch round needs several GetBlocksProof / GetTransactionsProof messages
    #[serde(default)]
    pub bulk: u8,
    #[serde(default)]
    pub bulk_at: u8,
}

pub struct C16;

#[derive(Debug, Clone, PartialEq)]
enum St {
    Added(u64),
    Fetching(u64),
    Fetched,
    NotFound,
}

fn parse_status(v: &Value) -> St {
    match v["status"].as_str().unwrap_or("") {
        "added" => St::Added(hexu(&v["timestamp"])),
        "fetching" => St::Fetching(hexu(&v["first_sent"])),
        "fetched" => St::Fetched,
        _ => St::NotFound,
    }
}

fn hexu(v: &Value) -> u64 {
    v.as_str().and_then(|s| u64::from_str_radix(s.trim_start_matches("0x"), 16).ok()).unwrap_or(u64::MAX)
}

struct Track {
    last: Option<St>,
    missing_reported: bool,
    is_tx: bool,
    bulk: bool,
}

fn find_block<'a>(chains: &'a [Chain], h: &Byte32) -> Option<&'a BlockView> {
    for c in chains {
        if let Some(n) = c.number_of(h) {
            return Some(&c.blocks[n as usize]);
        }
    }
    None
}

impl Property for C16 {
    type Case = Case;
    const ID: &'static str = "C16";

    fn cases(tier: Tier) -> u32 {
        match tier {
            Tier::Quick => 12000,
            Tier::Thorough => 80_000,
        }
    }

    fn rule() -> &'static str {
        "cases: a synced client (1..3 honest proven peers, registered scripts) x histories of fetch_header / fetch_transaction / get_transaction for hashes on the proven chain, only on a fork, or non-existent, fetch and refresh ticks, clock steps up to and past the 60 s timeout, honest answers in any order (found / missing / mixed / for a newer tip), \
         corrupted answers (peer banned and dropped), disconnects, reconnects, growth, a reorg to the competing branch, and filter-sync progress. After every RPC answer: the status sequence per hash is a path of added -> fetching -> fetched | not_found (not_found only after a proven peer reported it missing), timestamps stable, fetched data byte-identical to the chain's, \
         every (transaction, block hash) reported as committed is a real pair whose header is served; finally, with honest peers connected, every requested on-chain hash becomes fetched (never stuck). \
         non-trivial: a peer loss (timeout, disconnect or ban) while one of its fetches was in flight, or a reorg after a transaction was stored; distinct by (which of those, #peers, hash kinds requested, event-shape hash)"
    }

    fn strategy(tier: Tier) -> BoxedStrategy<Case> {
        let maxlen = match tier {
            Tier::Quick => 60u16,
            Tier::Thorough => 250u16,
        };
        let ev = prop_oneof![
            4 => (0u8..3, any::<u16>()).prop_map(|(k, i)| Ev::FetchHeader(k, i)),
            5 => (0u8..3, any::<u16>()).prop_map(|(k, i)| Ev::FetchTx(k, i)),
            3 => (0u8..3, any::<u16>()).prop_map(|(k, i)| Ev::GetTx(k, i)),
            5 => Just(Ev::FetchTick),
            2 => Just(Ev::RefreshTick),
            2 => prop_oneof![Just(100u16), Just(8001u16), Just(30000u16), Just(60001u16)].prop_map(Ev::Advance),
            8 => any::<u16>().prop_map(Ev::Answer),
            2 => any::<u16>().prop_map(Ev::AnswerInvalid),
            1 => any::<u16>().prop_map(Ev::Disconnect),
            2 => Just(Ev::Connect),
            1 => (1u8..4).prop_map(Ev::Grow),
            1 => Just(Ev::SwitchBranch),
            2 => (1u8..20).prop_map(Ev::Drain),
        ];
        (chain_params(maxlen), net_params(), prop::collection::vec(reg_spec(), 0..3), 1u8..4, prop::collection::vec(ev, 1..50), prop_oneof![12 => Just(0u8), 1 => Just(1u8), 1 => Just(2u8)], any::<u8>())
            .prop_map(|(mut chain, mut net, mut initial, fork_depth, events, bulk, bulk_at)| {
                chain.density = chain.density.max(60);
                chain.len = chain.len.max(12);
                net.last_n = 3; // 10
                net.interval = 3; // 32
                for r in initial.iter_mut() {
                    r.start_kind = r.start_kind.min(1);
                }
                Case { chain, net, initial, fork_depth, events, bulk, bulk_at }
            })
            .boxed()
    }

    fn run(case: &Case, obs: &mut Obs) -> Result<(), Failure> {
        // the documented long-fork abort (see C04, known findings D21 / D23) ends a history; it is not judged here
        let r = std::panic::catch_unwind(std::panic::AssertUnwindSafe(|| run_inner(case, obs)));
        crate::verif_hooks::set_rng_seed(None);
        match r {
            Ok(r) => r,
            Err(p) => {
                let (msg, loc) = take_last_panic().unwrap_or_default();
                if msg.contains("long fork detected") || msg.contains("pump livelock") {
                    obs.label("ended-by-long-fork-abort-or-livelock(C04)");
                    Ok(())
                } else {
                    LAST_PANIC.with(|l| *l.borrow_mut() = Some((msg, loc)));
                    std::panic::resume_unwind(p)
                }
            }
        }
    }
}

fn run_inner(case: &Case, obs: &mut Obs) -> Result<(), Failure> {
    {
        let chain = build_chain(&case.chain);
        let f = chain.tip().saturating_sub(case.fork_depth as u64);
        let mut fork = chain.fork_at(f, case.chain.seed ^ 0x16);
        fork.mine_n(case.fork_depth as u64 + 2);
        let mut sim = Sim::new(chain, build_cfg(&case.net));
        sim.w.chains.push(fork);
        crate::verif_hooks::set_rng_seed(Some(case.chain.seed ^ 0xc16));
        let finish = |r: Result<(), Failure>| {
            crate::verif_hooks::set_rng_seed(None);
            r
        };
        sim.w.record_deliveries = true;
        if !case.initial.is_empty() {
            sim.set_scripts(0, &case.initial);
        }
        sim.connect_quorum();
        // start from a proven client
        let tipn = sim.w.chains[0].tip();
        sim.w.drain(300, |w| Unpack::<u64>::unpack(&w.storage().get_tip_header().raw().number()) == tipn);
        if let Some(l) = ended_by_ban(&sim.w) {
            obs.label(l);
            return finish(Ok(()));
        }
        let mut tracks: BTreeMap<Vec<u8>, Track> = BTreeMap::new();
        let mut delivered_seen = 0usize;
        let mut peer_lost_with_fetch = false;
        let mut reorg_after_store = false;
        let mut switched = false;
        let mut kinds_requested: BTreeSet<(bool, u8)> = BTreeSet::new();
        let pick_header = |sim: &Sim, kind: u8, i: u16| -> Byte32 {
            match kind % 3 {
                0 => {
                    let c = &sim.w.chains[sim.main];
                    c.blocks[idx(i, c.blocks.len())].hash()
                }
                1 => {
                    let c = &sim.w.chains[1 - sim.main];
                    c.blocks[c.blocks.len() - 1 - idx(i, 2.min(c.blocks.len()))].hash()
                }
                _ => {
                    let mut b = [0x5cu8; 32];
                    b[0] = i as u8;
                    b[1] = (i >> 8) as u8;
                    b.pack()
                }
            }
        };
        let pick_tx = |sim: &Sim, kind: u8, i: u16| -> Byte32 {
            match kind % 3 {
                0 => {
                    let c = &sim.w.chains[sim.main];
                    let b = &c.blocks[idx(i, c.blocks.len())];
                    b.transactions()[idx(i.wrapping_mul(31), b.transactions().len())].hash()
                }
                1 => {
                    let c = &sim.w.chains[1 - sim.main];
                    let b = &c.blocks[c.blocks.len() - 1];
                    b.transactions()[0].hash()
                }
                _ => {
                    let mut b = [0x7du8; 32];
                    b[0] = i as u8;
                    b[1] = (i >> 8) as u8;
                    b.pack()
                }
            }
        };
        for (step, ev) in case.events.iter().enumerate() {
            if case.bulk != 0 && step == case.bulk_at as usize % case.events.len() {
                let n = 1001 + (case.chain.seed % 40) as usize;
                let is_tx = case.bulk == 2;
                obs.label(if is_tx { "bulk-fetch-transactions(>1000)" } else { "bulk-fetch-headers(>1000)" });
                for k in 0..n {
                    let mut b = [if is_tx { 0x7eu8 } else { 0x5eu8 }; 32];
                    b[0] = k as u8;
                    b[1] = (k >> 8) as u8;
                    b[2] = case.chain.seed as u8;
                    let h: Byte32 = b.pack();
                    let v: Value = if is_tx {
                        serde_json::to_value(&sim.w.tx_rpc().fetch_transaction(h.unpack()).map_err(|e| Failure::new("rpc-error", format!("{:?}", e)))?).unwrap()
                    } else {
                        serde_json::to_value(&sim.w.chain_rpc().fetch_header(h.unpack()).map_err(|e| Failure::new("rpc-error", format!("{:?}", e)))?).unwrap()
                    };
                    let st = parse_status(&v);
                    let t = tracks.entry(h.as_slice().to_vec()).or_insert(Track { last: None, missing_reported: false, is_tx, bulk: true });
                    check_transition(t, &st, step, "bulk fetch")?;
                    t.last = Some(st);
                    t.missing_reported = false;
                }
            }
            let in_flight_fetch = |sim: &Sim, p: PeerIndex| -> bool {
                sim.w.c().peers.get_peer(&p).map(|x| x.get_blocks_proof_request().map(|r| !r.should_get_blocks()).unwrap_or(false) || x.get_txs_proof_request().is_some()).unwrap_or(false)
            };
            match ev {
                Ev::FetchHeader(kind, i) => {
                    let h = pick_header(&sim, *kind, *i);
                    kinds_requested.insert((false, kind % 3));
                    let r = sim.w.chain_rpc().fetch_header(h.unpack()).map_err(|e| Failure::new("rpc-error", format!("{:?}", e)));
                    let v = serde_json::to_value(&match r {
                        Ok(x) => x,
                        Err(f) => return finish(Err(f)),
                    })
                    .unwrap();
                    let st = parse_status(&v);
                    let t = tracks.entry(h.as_slice().to_vec()).or_insert(Track { last: None, missing_reported: false, is_tx: false, bulk: false });
                    check_transition(t, &st, step, &format!("fetch_header {:#x}", h))?;
                    if st == St::Fetched {
                        // byte-identical to a real header
                        let real = find_block(&sim.w.chains, &h).map(|b| {
                            let hv: ckb_jsonrpc_types::HeaderView = b.header().into();
                            serde_json::to_value(&hv).unwrap()
                        });
                        if real.as_ref() != Some(&v["data"]) {
                            return finish(Err(Failure::new("fetched-header-is-not-genuine", format!("{:#x}", h))));
                        }
                    }
                    t.last = Some(st);
                    t.missing_reported = false;
                }
                Ev::FetchTx(kind, i) | Ev::GetTx(kind, i) => {
                    let h = pick_tx(&sim, *kind, *i);
                    let is_fetch = matches!(ev, Ev::FetchTx(..));
                    let v: Value = if is_fetch {
                        kinds_requested.insert((true, kind % 3));
                        match sim.w.tx_rpc().fetch_transaction(h.unpack()) {
                            Ok(x) => serde_json::to_value(&x).unwrap(),
                            Err(e) => return finish(Err(Failure::new("rpc-error", format!("{:?}", e)))),
                        }
                    } else {
                        match sim.w.tx_rpc().get_transaction(h.unpack()) {
                            Ok(x) => json!({"status": if x.transaction.is_some() { "fetched" } else { "none" }, "data": serde_json::to_value(&x).unwrap()}),
                            Err(e) => return finish(Err(Failure::new("rpc-error", format!("{:?}", e)))),
                        }
                    };
                    if is_fetch {
                        let st = parse_status(&v);
                        let t = tracks.entry(h.as_slice().to_vec()).or_insert(Track { last: None, missing_reported: false, is_tx: true, bulk: false });
                        check_transition(t, &st, step, &format!("fetch_transaction {:#x}", h))?;
                        t.last = Some(st);
                        t.missing_reported = false;
                    }
                    if v["status"] == "fetched" {
                        let d = &v["data"];
                        if d["tx_status"]["status"] == "committed" {
                            let bh = d["tx_status"]["block_hash"].as_str().unwrap_or("").to_string();
                            let blk = sim.w.chains.iter().flat_map(|c| c.blocks.iter()).find(|b| format!("{:#x}", b.hash()) == bh);
                            let contains = blk.map(|b| b.transactions().iter().any(|t| t.hash() == h)).unwrap_or(false);
                            if !contains {
                                let sig = if switched { "committed-transaction-reported-with-a-block-that-does-not-contain-it/after-reorg" } else { "committed-transaction-reported-with-a-block-that-does-not-contain-it" };
                                return finish(tolerate(obs, Failure::new(sig, format!("tx {:#x} block {} (step {})", h, bh, step))));
                            }
                            let hdr = sim.w.chain_rpc().get_header(blk.unwrap().hash().unpack()).ok().flatten();
                            if hdr.is_none() {
                                return finish(Err(Failure::new("committed-transaction-without-served-header", format!("tx {:#x} block {}", h, bh))));
                            }
                            // the raw transaction is the committed one
                            let real = blk.unwrap().transactions().iter().find(|t| t.hash() == h).map(|t| t.data().raw().as_slice().to_vec());
                            let got: Option<ckb_jsonrpc_types::TransactionView> = serde_json::from_value(d["transaction"].clone()).ok();
                            let got_raw = got.map(|g| {
                                let t: packed::Transaction = g.inner.into();
                                t.raw().as_slice().to_vec()
                            });
                            if real != got_raw {
                                return finish(Err(Failure::new("fetched-transaction-differs-from-the-committed-one", format!("{:#x}", h))));
                            }
                        }
                    }
                }
                Ev::FetchTick => sim.w.tick(SupportProtocols::LightClient, 1),
                Ev::RefreshTick => {
                    let before: Vec<PeerIndex> = sim.w.connected_peers().iter().map(|p| p.index).collect();
                    let infl: Vec<PeerIndex> = before.iter().cloned().filter(|p| in_flight_fetch(&sim, *p)).collect();
                    sim.w.tick(SupportProtocols::LightClient, 0);
                    for p in infl {
                        if !sim.w.peer(p).map(|x| x.connected).unwrap_or(false) {
                            peer_lost_with_fetch = true;
                        }
                    }
                }
                Ev::Advance(ms) => sim.w.advance(*ms as u64),
                Ev::Answer(i) => sim.step(&Step::Deliver(*i)),
                Ev::AnswerInvalid(_) => {
                    let pos = sim.w.shared.sent.lock().unwrap().iter().position(|(proto, _, d)| {
                        *proto == SupportProtocols::LightClient.protocol_id()
                            && matches!(
                                packed::LightClientMessage::from_slice(d).map(|m| m.to_enum()),
                                Ok(packed::LightClientMessageUnion::GetBlocksProof(_)) | Ok(packed::LightClientMessageUnion::GetTransactionsProof(_))
                            )
                    });
                    if let Some(pos) = pos {
                        let req = sim.w.take_request(pos).unwrap();
                        let p = req.1;
                        let had = in_flight_fetch(&sim, p);
                        for (proto, bytes) in sim.w.honest_replies(&req) {
                            let mut b = bytes.to_vec();
                            let l = b.len();
                            if l > 80 {
                                // corrupt the MMR proof / header region
                                b[l / 2] ^= 0x41;
                                b[l - 9] ^= 0x10;
                            }
                            sim.w.deliver(proto, p, P2pBytes::from(b));
                        }
                        if sim.w.bans().iter().any(|(q, _)| *q == p) {
                            sim.w.disconnect(p);
                            sim.w.shared.banned.lock().unwrap().retain(|(q, _)| *q != p);
                            if had {
                                peer_lost_with_fetch = true;
                            }
                        }
                    }
                }
                Ev::Disconnect(i) => {
                    let cp = sim.w.connected_peers();
                    if !cp.is_empty() {
                        let p = cp[idx(*i, cp.len())].index;
                        if in_flight_fetch(&sim, p) {
                            peer_lost_with_fetch = true;
                        }
                        sim.w.disconnect(p);
                    }
                }
                Ev::Connect => {
                    if (sim.w.connected_peers().len() as u32) < sim.w.cfg.max_outbound {
                        let t = sim.w.chains[sim.main].tip();
                        let m = sim.main;
                        sim.w.connect(m, t, true);
                    }
                }
                Ev::Grow(n) => {
                    let m = sim.main;
                    sim.w.grow(m, *n as u64);
                }
                Ev::SwitchBranch => {
                    if !switched {
                        switched = true;
                        sim.main = 1;
                        // honest peers only move to a heavier branch
                        while sim.w.chains[1].total_diff.last() <= sim.w.chains[0].total_diff.last() {
                            sim.w.chains[1].mine_n(1);
                        }
                        sim.w.chains[1].mine_n(1);
                        let t = sim.w.chains[1].tip();
                        for p in sim.w.connected_peers() {
                            sim.w.switch_peer(p.index, 1, t);
                        }
                        if tracks.values().any(|t| t.is_tx && t.last == Some(St::Fetched)) {
                            reorg_after_store = true;
                        }
                    }
                }
                Ev::Drain(n) => {
                    sim.w.drain(*n as usize, |_| false);
                }
            }
            // missing reports delivered since the last look
            for (proto, _, d) in &sim.w.delivered[delivered_seen..] {
                if *proto != SupportProtocols::LightClient.protocol_id() {
                    continue;
                }
                if let Ok(m) = packed::LightClientMessageReader::from_compatible_slice(d) {
                    match m.to_enum() {
                        packed::LightClientMessageUnionReader::SendBlocksProof(p) => {
                            for h in p.missing_block_hashes().iter() {
                                if let Some(t) = tracks.get_mut(h.as_slice()) {
                                    t.missing_reported = true;
                                }
                            }
                        }
                        packed::LightClientMessageUnionReader::SendTransactionsProof(p) => {
                            for h in p.missing_tx_hashes().iter() {
                                if let Some(t) = tracks.get_mut(h.as_slice()) {
                                    t.missing_reported = true;
                                }
                            }
                        }
                        _ => {}
                    }
                }
            }
            delivered_seen = sim.w.delivered.len();
            if let Some(l) = ended_by_ban(&sim.w) {
                obs.label(l);
                return finish(Ok(()));
            }
        }
        // never lost: with honest proven peers connected every requested on-chain hash is eventually fetched
        sim.w.shared.banned.lock().unwrap().clear();
        sim.connect_quorum();
        let m = sim.main;
        sim.w.grow(m, 1);
        let tipn = sim.w.chains[m].tip();
        let r = std::panic::catch_unwind(std::panic::AssertUnwindSafe(|| {
            for _ in 0..4 {
                sim.w.drain(200, |w| Unpack::<u64>::unpack(&w.storage().get_tip_header().raw().number()) == tipn && !w.c().peers.has_fetching_info());
                if !sim.w.c().peers.has_fetching_info() {
                    break;
                }
                // let the 60 s timeouts fire, re-dial
                sim.w.advance(61_000);
                sim.w.tick(SupportProtocols::LightClient, 0);
                sim.connect_quorum();
                let mm = sim.main;
                sim.w.grow(mm, 1);
            }
        }));
        if r.is_err() {
            obs.label("ended-by-long-fork-abort");
            return finish(Ok(()));
        }
        if let Some(l) = ended_by_ban(&sim.w) {
            obs.label(l);
            return finish(Ok(()));
        }
        let stored_tip: u64 = sim.w.storage().get_tip_header().raw().number().unpack();
        if stored_tip >= tipn {
            for (h, t) in tracks.iter() {
                let hb = Byte32::from_slice(h).unwrap();
                let on_chain = if t.is_tx {
                    sim.w.chains[m].blocks.iter().take(stored_tip as usize).any(|b| b.transactions().iter().any(|x| x.hash() == hb))
                } else {
                    sim.w.chains[m].number_of(&hb).map(|n| n < stored_tip).unwrap_or(false)
                };
                if !on_chain {
                    if t.bulk {
                        // a non-existent hash: after the fair drain every honest proven peer which was asked has reported it
                        // missing, so the entry may not still claim that a request is in flight
                        let v = if t.is_tx {
                            serde_json::to_value(&sim.w.tx_rpc().fetch_transaction(hb.unpack()).map_err(|e| Failure::new("rpc-error", format!("{:?}", e)))?).unwrap()
                        } else {
                            serde_json::to_value(&sim.w.chain_rpc().fetch_header(hb.unpack()).map_err(|e| Failure::new("rpc-error", format!("{:?}", e)))?).unwrap()
                        };
                        if let St::Fetching(_) = parse_status(&v) {
                            let asked = sim.w.connected_peers().iter().any(|p| {
                                sim.w.c().peers.get_peer(&p.index).map(|x| {
                                    x.get_blocks_proof_request().map(|r| r.block_hashes().into_iter().any(|y| y.pack() == hb)).unwrap_or(false)
                                        || x.get_txs_proof_request().map(|r| r.tx_hashes().into_iter().any(|y| y.pack() == hb)).unwrap_or(false)
                                }).unwrap_or(false)
                            });
                            if !asked {
                                return finish(tolerate(obs, Failure::new("fetch-lost/stuck-in-fetching", format!("{} {:#x} (one of more than 1000 requested at once): still 'fetching' after a fair drain although no connected peer has a request for it", if t.is_tx { "transaction" } else { "header" }, hb))));
                            }
                        }
                    }
                    continue;
                }
                let v = if t.is_tx {
                    serde_json::to_value(&sim.w.tx_rpc().fetch_transaction(hb.unpack()).map_err(|e| Failure::new("rpc-error", format!("{:?}", e)))?).unwrap()
                } else {
                    serde_json::to_value(&sim.w.chain_rpc().fetch_header(hb.unpack()).map_err(|e| Failure::new("rpc-error", format!("{:?}", e)))?).unwrap()
                };
                let mut st = parse_status(&v);
                if st == St::NotFound {
                    // legitimate once after a peer reported it missing (e.g. asked while it was not yet below the proven tip, or
                    // before a reorg made it part of the chain); the call re-adds it: one more fair round must fetch it
                    sim.w.drain(200, |w| !w.c().peers.has_fetching_info());
                    let v2 = if t.is_tx {
                        serde_json::to_value(&sim.w.tx_rpc().fetch_transaction(hb.unpack()).map_err(|e| Failure::new("rpc-error", format!("{:?}", e)))?).unwrap()
                    } else {
                        serde_json::to_value(&sim.w.chain_rpc().fetch_header(hb.unpack()).map_err(|e| Failure::new("rpc-error", format!("{:?}", e)))?).unwrap()
                    };
                    st = parse_status(&v2);
                }
                if st != St::Fetched {
                    // D10 pattern: sent once, never re-queued
                    let sig = match st {
                        St::Fetching(_) => "fetch-lost/stuck-in-fetching",
                        St::Added(_) => "fetch-lost/stuck-in-added",
                        _ => "fetch-lost/not-found-for-an-on-chain-hash",
                    };
                    return finish(tolerate(obs, Failure::new(sig, format!("{} {:#x}: status {:?} after a fair drain with {} honest proven peers (stored tip {})", if t.is_tx { "transaction" } else { "header" }, hb, st, sim.w.connected_peers().len(), stored_tip))));
                }
            }
        } else {
            obs.label("final-sync-incomplete(not judged)");
        }
        if peer_lost_with_fetch {
            obs.label("peer-lost-with-fetch-in-flight");
        }
        if reorg_after_store {
            obs.label("reorg-after-transaction-stored");
        }
        if peer_lost_with_fetch || reorg_after_store {
            use std::hash::{Hash, Hasher};
            let mut hs = std::collections::hash_map::DefaultHasher::new();
            for e in &case.events {
                std::mem::discriminant(e).hash(&mut hs);
            }
            obs.nontrivial((peer_lost_with_fetch, reorg_after_store, sim.w.cfg.max_outbound, kinds_requested.clone(), hs.finish()));
        }
        finish(Ok(()))
    }
}

fn check_transition(t: &Track, new: &St, step: usize, what: &str) -> Result<(), Failure> {
    let ctx = format!("{} at step {}: {:?} -> {:?} (missing reported since last call: {})", what, step, t.last, new, t.missing_reported);
    if *new == St::NotFound && !t.missing_reported {
        return Err(Failure::new("not_found-without-a-peer-reporting-it-missing", ctx));
    }
    match (&t.last, new) {
        (Some(St::Fetched), St::Fetched) => Ok(()),
        (Some(St::Fetched), _) => Err(Failure::new("fetched-entry-went-back", ctx)),
        (Some(St::Fetching(a)), St::Fetching(b)) if a != b => Err(Failure::new("first_sent-changed", ctx)),
        (Some(St::Fetching(_)), St::Added(_)) => Err(Failure::new("fetching-went-back-to-added", ctx)),
        (Some(St::Added(a)), St::Added(b)) if a != b => Err(Failure::new("added-timestamp-changed", ctx)),
        _ => Ok(()),
    }
}
