//! Shared scenario vocabulary for the whole-sync properties (C03, C04, C06, C08, C09, C16):
//! chain / network parameters, schedule steps, an interpreter over `World`, and the model of
//! registered scripts used by the reference-index oracle.

use std::collections::BTreeMap;

use ckb_network::SupportProtocols;
use ckb_pow::Pow;
use ckb_types::{packed, prelude::*, H256};
use proptest::prelude::*;
use serde::{Deserialize, Serialize};

use crate::lcv::oracle::index::{compare, Reg, SType};
use crate::lcv::pbt::*;
use crate::lcv::props::c05::{classify_bans, goal};
use crate::lcv::sim::chain::{gen_epochs, universe_lock, universe_type, Chain, TxGen, N_LOCKS};
use crate::lcv::sim::world::{Cfg, World, START_TIME};
use crate::service::{BlockFilterRpc, ChainRpc, SetScriptsCommand, TransactionRpc};

#[derive(Debug, Clone, Serialize, Deserialize)]
pub struct ChainParams {
    pub seed: u64,
    pub n_epochs: u8,
    pub maxlen: u8,
    pub len: u16,
    pub density: u8,
    pub typed: u8,
    pub same_block: u8,
    pub cellbase_universe: bool,
}

#[derive(Debug, Clone, Serialize, Deserialize)]
pub struct NetParams {
    pub last_n: u8,
    pub interval: u8,
    pub max_outbound: u8,
    pub filter_batch: u8,
    pub v1: bool,
}

/// A script registration request: which universe script and where to start.
#[derive(Debug, Clone, Serialize, Deserialize)]
pub struct RegSpec {
    /// 0..6 lock scripts of the universe, 6..8 type scripts
    pub script: u8,
    /// 0: start 0; 1: relative position in [0, tip]; 2: at current tip; 3: above the tip
    pub start_kind: u8,
    pub pos: u16,
}

#[derive(Debug, Clone, Serialize, Deserialize)]
pub enum Step {
    Deliver(u16),
    Pump,
    Tick(u8),
    Advance(u16),
    Grow(u8),
    Restart,
    /// fetch_transaction of the k-th transaction (by position in the chain's transaction list)
    FetchTx(u16),
    FetchHeader(u16),
    /// cmd: 0 all, 1 partial, 2 delete
    SetScripts(u8, Vec<RegSpec>),
    /// fair drain for at most n rounds (lets the sync make real progress between user actions)
    Drain(u8),
}

pub fn chain_params(maxlen: u16) -> impl Strategy<Value = ChainParams> {
    (any::<u64>(), 1u8..30, 1u8..30, 8u16..maxlen, 20u8..100, 0u8..50, 0u8..60, any::<bool>()).prop_map(|(seed, n_epochs, maxl, len, density, typed, same_block, cellbase_universe)| ChainParams {
        seed,
        n_epochs,
        maxlen: maxl,
        len,
        density,
        typed,
        same_block,
        cellbase_universe,
    })
}

pub fn net_params() -> impl Strategy<Value = NetParams> {
    (0u8..5, 0u8..3, 1u8..4, 1u8..12, any::<bool>()).prop_map(|(last_n, interval, max_outbound, filter_batch, v1)| NetParams { last_n, interval, max_outbound, filter_batch, v1 })
}

pub fn reg_spec() -> impl Strategy<Value = RegSpec> {
    (0u8..8, prop_oneof![3 => Just(0u8), 3 => Just(1u8), 1 => Just(2u8), 1 => Just(3u8)], any::<u16>()).prop_map(|(script, start_kind, pos)| RegSpec { script, start_kind, pos })
}

pub fn step_strategy(with_user: bool) -> BoxedStrategy<Step> {
    if with_user {
        prop_oneof![
            6 => any::<u16>().prop_map(Step::Deliver),
            3 => Just(Step::Pump),
            3 => (0u8..6).prop_map(Step::Tick),
            1 => (1u16..2000).prop_map(Step::Advance),
            2 => (1u8..12).prop_map(Step::Grow),
            1 => Just(Step::Restart),
            3 => any::<u16>().prop_map(Step::FetchTx),
            1 => any::<u16>().prop_map(Step::FetchHeader),
            2 => (0u8..3, prop::collection::vec(reg_spec(), 0..3)).prop_map(|(c, r)| Step::SetScripts(c, r)),
            2 => (1u8..30).prop_map(Step::Drain),
        ]
        .boxed()
    } else {
        prop_oneof![
            6 => any::<u16>().prop_map(Step::Deliver),
            3 => Just(Step::Pump),
            3 => (0u8..6).prop_map(Step::Tick),
            1 => (1u16..2000).prop_map(Step::Advance),
            2 => (1u8..12).prop_map(Step::Grow),
            1 => Just(Step::Restart),
            2 => (1u8..30).prop_map(Step::Drain),
        ]
        .boxed()
    }
}

/// Some(label) when an honest peer was banned or disconnected (for a non-timeout reason): the history
/// cannot go on; such events are judged by C05 only.
pub fn ended_by_ban(w: &World) -> Option<String> {
    classify_bans(w).err().map(|f| format!("ended-by-ban:{}", f.signature))
}

pub const LAST_NS: [u64; 5] = [2, 3, 5, 10, 100];

pub fn build_chain(p: &ChainParams) -> Chain {
    let epochs = gen_epochs(p.seed, p.n_epochs.max(1) as usize, p.maxlen.max(1) as u64, 20);
    let txgen = TxGen { density: p.density as u64, max_txs: 3, typed: p.typed as u64, same_block: p.same_block as u64, cellbase_universe: p.cellbase_universe, gate: false };
    let mut chain = Chain::new(epochs, START_TIME, p.seed, Pow::Eaglesong, txgen);
    chain.mine_n(p.len as u64);
    chain
}

pub fn build_cfg(n: &NetParams) -> Cfg {
    Cfg {
        last_n: LAST_NS[n.last_n as usize % LAST_NS.len()],
        max_outbound: n.max_outbound.max(1) as u32,
        interval: [4u64, 8, 16, 32][n.interval as usize % 4],
        filter_batch: n.filter_batch.max(1) as usize,
        v1: n.v1,
        ..Cfg::default()
    }
}

pub fn spec_script(s: &RegSpec) -> (ckb_types::packed::Script, SType) {
    if s.script == 200 {
        // C18 only (never generated by `reg_spec`): the witness-gate lock
        return (crate::lcv::sim::chain::gate_lock(), SType::Lock);
    }
    if s.script < N_LOCKS as u8 {
        (universe_lock(s.script as usize), SType::Lock)
    } else {
        (universe_type((s.script - N_LOCKS as u8) as usize), SType::Type)
    }
}

pub fn spec_start(s: &RegSpec, tip: u64) -> u64 {
    match s.start_kind {
        0 => 0,
        1 => (s.pos as u64 * (tip + 1)) >> 16,
        2 => tip,
        _ => tip + 1 + (s.pos as u64 % 7),
    }
}

/// World + model of the registered scripts.
pub struct Sim {
    pub w: World,
    /// (script bytes, is_type) -> Reg with the start recorded at its last mention
    pub regs: BTreeMap<(Vec<u8>, bool), Reg>,
    pub q: usize,
    pub restarts: u32,
    pub fetches: u32,
    pub set_scripts_calls: u32,
    pub set_scripts_while_pending: u32,
    /// the chain index honest peers follow
    pub main: usize,
}

pub fn key(r: &Reg) -> (Vec<u8>, bool) {
    (r.script.as_slice().to_vec(), r.stype == SType::Type)
}

impl Sim {
    pub fn new(chain: Chain, cfg: Cfg) -> Sim {
        let q = ((cfg.max_outbound as usize) + 1) / 2;
        let w = World::new(vec![chain], cfg);
        Sim { w, regs: BTreeMap::new(), q, restarts: 0, fetches: 0, set_scripts_calls: 0, set_scripts_while_pending: 0, main: 0 }
    }

    pub fn connect_quorum(&mut self) {
        let tip = self.w.chains[self.main].tip();
        let have = self.w.connected_peers().iter().filter(|p| p.follow && p.chain == self.main).count();
        for _ in have..self.q {
            self.w.connect(self.main, tip, true);
        }
    }

    /// The model after a set_scripts call (README semantics), without calling anything.
    pub fn model_after(&self, cmd: u8, specs: &[RegSpec]) -> (Vec<Reg>, BTreeMap<(Vec<u8>, bool), Reg>) {
        let tip = self.w.chains[self.main].tip();
        let regs: Vec<Reg> = specs
            .iter()
            .map(|s| {
                let (script, stype) = spec_script(s);
                Reg { script, stype, start: spec_start(s, tip) }
            })
            .collect();
        let mut model = self.regs.clone();
        match cmd % 3 {
            0 => {
                model.clear();
                for r in regs.iter().cloned() {
                    model.insert(key(&r), r);
                }
            }
            1 => {
                for r in regs.iter().cloned() {
                    model.insert(key(&r), r);
                }
            }
            _ => {
                for r in regs.iter() {
                    model.remove(&key(r));
                }
            }
        }
        (regs, model)
    }

    /// set_scripts through the real RPC + model update (README semantics).
    pub fn set_scripts(&mut self, cmd: u8, specs: &[RegSpec]) {
        let (regs, model) = self.model_after(cmd, specs);
        let pending = self.w.storage().get_earliest_matched_blocks().is_some();
        self.set_scripts_calls += 1;
        if pending {
            self.set_scripts_while_pending += 1;
        }
        let command = match cmd % 3 {
            0 => SetScriptsCommand::All,
            1 => SetScriptsCommand::Partial,
            _ => SetScriptsCommand::Delete,
        };
        let list: Vec<_> = regs.iter().map(|r| r.rpc_status()).collect();
        self.w.filter_rpc().set_scripts(list, Some(command)).expect("set_scripts");
        self.regs = model;
    }

    pub fn all_tx_hashes(&self) -> Vec<(u64, packed::Byte32)> {
        let c = &self.w.chains[self.main];
        let mut v = vec![];
        for b in &c.blocks {
            for tx in b.transactions().iter().skip(1) {
                v.push((b.number(), tx.hash()));
            }
        }
        v
    }

    pub fn step(&mut self, step: &Step) {
        let w = &mut self.w;
        match step {
            Step::Deliver(i) => {
                let n = w.outbox_len();
                if n > 0 {
                    let msg = w.take_request(idx(*i, n)).unwrap();
                    let peer = msg.1;
                    for (proto, bytes) in w.honest_replies(&msg) {
                        w.deliver(proto, peer, bytes);
                    }
                }
            }
            Step::Pump => {
                w.pump();
            }
            Step::Tick(t) => {
                if *t < 3 {
                    w.tick(SupportProtocols::LightClient, *t as u64)
                } else {
                    w.tick(SupportProtocols::Filter, (*t - 3) as u64)
                }
            }
            Step::Advance(ms) => w.advance(*ms as u64),
            Step::Grow(n) => w.grow(self.main, *n as u64),
            Step::Restart => {
                self.restarts += 1;
                w.restart();
                self.connect_quorum();
            }
            Step::FetchTx(k) => {
                let txs = self.all_tx_hashes();
                if !txs.is_empty() {
                    let (_, h) = &txs[idx(*k, txs.len())];
                    self.fetches += 1;
                    let _ = self.w.tx_rpc().fetch_transaction(h.unpack());
                }
            }
            Step::FetchHeader(k) => {
                let c = &self.w.chains[self.main];
                let n = idx(*k, c.blocks.len());
                let h: H256 = c.blocks[n].hash().unpack();
                let _ = self.w.chain_rpc().fetch_header(h);
            }
            Step::SetScripts(cmd, specs) => self.set_scripts(*cmd, specs),
            Step::Drain(n) => {
                self.w.drain(*n as usize, |_| false);
            }
        }
    }

    /// Final phase: the chain grows by one block (the environment every client lives in), then a
    /// fair drain until the goal state. Returns Err(description) when a quiescent state other than
    /// the goal is reached.
    pub fn finish(&mut self) -> Result<(), Failure> {
        let want_filter = !self.regs.is_empty();
        for attempt in 0..4 {
            // bans recorded so far belong to connections that are gone
            self.connect_quorum();
            self.w.grow(self.main, 1);
            let tipn = self.w.chains[self.main].tip();
            let res = self.w.drain(1200, |w| goal(w, tipn, want_filter));
            classify_bans(&self.w)?;
            if res.goal {
                return Ok(());
            }
            if attempt < 3 {
                // quiescent but not at the goal: let the documented 60 s timeouts fire (a peer left waiting is
                // dropped and re-dialed by the real network; whether that disconnect is justified is C05's business)
                self.w.advance(61_000);
                self.w.tick(SupportProtocols::LightClient, 0);
                continue;
            }
            let followers = self.w.connected_peers().iter().filter(|p| p.follow).count();
            if followers >= self.q || attempt == 3 {
                let s = self.w.storage();
                let stored: u64 = s.get_tip_header().raw().number().unpack();
                return Err(Failure::new(
                    if stored != tipn { "stuck/tip" } else { "stuck/filter-sync" },
                    format!(
                        "fair drain ended (rounds {}, fixpoint {}) outside the goal: stored tip {} chain tip {} min_filtered {} pending record {:?} memory matched {} scripts {:?} peers {:?} stats {:?}",
                        res.rounds,
                        res.fixpoint,
                        stored,
                        tipn,
                        s.get_min_filtered_block_number(),
                        s.get_earliest_matched_blocks().map(|(a, b, c)| (a, b, c.len())),
                        self.w.c().peers.matched_blocks().read().unwrap().len(),
                        s.get_filter_scripts().iter().map(|x| x.block_number).collect::<Vec<_>>(),
                        self.w.connected_peers().iter().map(|p| (p.index.value(), p.tip, self.w.c().peers.get_state(&p.index).map(|s| s.to_string()))).collect::<Vec<_>>(),
                        self.w.stats
                    ),
                ));
            }
        }
        Ok(())
    }

    /// The C03 oracle for every registered script on the main chain at its tip.
    pub fn compare_all(&self) -> Result<(), Failure> {
        let chain = &self.w.chains[self.main];
        let tipn = chain.tip();
        for r in self.regs.values() {
            if let Err(m) = compare(&self.w, chain, tipn, r) {
                return Err(Failure::new(format!("index/{}", m.kind), format!("script {:?} start {}: {}", r.script.args().raw_data(), r.start, m.detail)));
            }
        }
        // get_scripts numbers never exceed the proven height
        for ss in self.w.storage().get_filter_scripts() {
            if ss.block_number > tipn {
                // a script registered above the tip keeps its user-given number
                let given = self.regs.values().any(|r| r.script == ss.script && r.start == ss.block_number);
                if !given {
                    return Err(Failure::new("get_scripts-number-above-tip", format!("{} > {}", ss.block_number, tipn)));
                }
            }
        }
        Ok(())
    }
}
