//! C14 — difficulty checks: completeness (every legal history accepted), demanded soundness
//! classes, and no abort. Oracle: constructive legal histories + closed-form envelopes
//! (DESIGN.md §6/C14, Appendix C); the small grid is enumerated exhaustively.

use std::panic::{catch_unwind, AssertUnwindSafe};

use ckb_types::{
    core::EpochNumberWithFraction,
    utilities::{compact_to_difficulty, difficulty_to_compact},
    U256,
};
use proptest::prelude::*;
use serde::{Deserialize, Serialize};
use serde_json::json;

use crate::lcv::pbt::*;
use crate::protocols::light_client::verif_api::{verify_tau, verify_total_difficulty};

const TAU: u64 = 2;

#[derive(Debug, Clone, Serialize, Deserialize)]
pub struct Epoch {
    pub len: u64,
    pub compact: u32,
}

#[derive(Debug, Clone, Serialize, Deserialize)]
pub enum Case {
    /// A legal history: epochs (length, compact target), start/end indices, start total difficulty (hex).
    Legal { epochs: Vec<Epoch>, is: u64, ie: u64, start_td_shift: u8, first_number: u32 },
    /// Derived illegal input of a named class; must be rejected.
    Illegal { epochs: Vec<Epoch>, is: u64, ie: u64, start_td_shift: u8, first_number: u32, class: u8, delta: u64 },
    /// Arbitrary numbers; must not abort.
    Fuzz { se: u64, sc: u32, st: [u64; 4], ee: u64, ec: u32, et: [u64; 4] },
}

pub struct C14;

fn diff(compact: u32) -> U256 {
    compact_to_difficulty(compact)
}

fn u(x: u64) -> U256 {
    U256::from(x)
}

/// Grid of block difficulties for the random walk: exactly representable values.
fn exact_compact(d: u64) -> Option<u32> {
    let c = difficulty_to_compact(u(d));
    if compact_to_difficulty(c) == u(d) {
        Some(c)
    } else {
        None
    }
}

fn legal_step(prev: (u64, &U256), next: (u64, &U256)) -> bool {
    let (pl, pd) = prev;
    let (nl, nd) = next;
    let (pe, ne) = (pd * pl, nd * nl);
    let t = TAU as u32;
    nd <= &(pd * t) && &(nd * t) >= pd && ne <= &pe * t && &ne * t >= pe
}

/// Builds a legal epoch history of `count` epochs from a seed. `sat` (0..=100) is the bias
/// towards saturating (×τ / ÷τ) steps, `maxlen` bounds epoch lengths.
pub fn gen_history(seed: u64, count: usize, sat: u64, maxlen: u64) -> Vec<Epoch> {
    let mut r = Prng::new(seed);
    let mut d: u64 = 1 << (4 + r.below(20));
    let mut l: u64 = 1 + r.below(maxlen);
    let mut out = vec![];
    for _ in 0..count {
        let c = exact_compact(d).unwrap_or_else(|| difficulty_to_compact(u(d)));
        let dd = diff(c);
        out.push(Epoch { len: l, compact: c });
        // next epoch
        let mut tries = 0;
        loop {
            tries += 1;
            let (nd, nl) = if r.below(100) < sat {
                // saturating move of the epoch difficulty, keeping both readings legal
                match r.below(6) {
                    0 => (d.saturating_mul(2), l),
                    1 => ((d / 2).max(2), l),
                    2 => (d, (l * 2).min(maxlen.max(1))),
                    3 => (d, (l / 2).max(1)),
                    4 => (d.saturating_mul(2), (l / 2).max(1)),
                    _ => ((d / 2).max(2), (l * 2).min(maxlen.max(1))),
                }
            } else {
                let nd = match r.below(5) {
                    0 => d,
                    1 => d + r.below(d + 1),
                    2 => (d - r.below(d / 2 + 1)).max(2),
                    3 => d.saturating_mul(2),
                    _ => (d / 2).max(2),
                };
                let nl = match r.below(4) {
                    0 => l,
                    1 => (l + r.below(l + 1)).min(maxlen.max(1)),
                    2 => (l - r.below(l / 2 + 1)).max(1),
                    _ => 1 + r.below(maxlen),
                };
                (nd, nl)
            };
            if nd < 2 || nd > (1u64 << 60) || nl == 0 {
                continue;
            }
            let nc = difficulty_to_compact(u(nd));
            let ndd = diff(nc);
            if legal_step((l, &dd), (nl, &ndd)) {
                // store the *representable* difficulty
                let as_u64 = ndd.0[0];
                if ndd.0[1] == 0 && ndd.0[2] == 0 && ndd.0[3] == 0 {
                    d = as_u64;
                    l = nl;
                    break;
                }
            }
            if tries > 64 {
                // keep parameters (always legal)
                break;
            }
        }
    }
    out
}

fn is_legal(epochs: &[Epoch]) -> bool {
    epochs.windows(2).all(|w| legal_step((w[0].len, &diff(w[0].compact)), (w[1].len, &diff(w[1].compact))))
}

fn true_total(epochs: &[Epoch], is: u64, ie: u64) -> U256 {
    let n = epochs.len() - 1;
    let ds = diff(epochs[0].compact);
    if n == 0 {
        return &ds * (ie - is);
    }
    let de = diff(epochs[n].compact);
    let mut t = &ds * (epochs[0].len - is - 1) + &de * (ie + 1);
    for e in &epochs[1..n] {
        t = t + diff(e.compact) * e.len;
    }
    t
}

fn start_td(shift: u8) -> U256 {
    // offset of the start total difficulty: 2^shift (shift <= 200)
    let mut v = U256::one();
    for _ in 0..shift.min(200) {
        v = &v * 2u32;
    }
    v
}

struct Call {
    tau: Result<Result<bool, String>, String>,
    td: Result<Result<(), String>, String>,
}

fn call(se: EpochNumberWithFraction, sc: u32, st: &U256, ee: EpochNumberWithFraction, ec: u32, et: &U256) -> Call {
    let tau = catch_unwind(AssertUnwindSafe(|| verify_tau(se, sc, ee, ec, TAU)))
        .map(|r| r.map_err(|s| format!("{}", s)))
        .map_err(|_| take_last_panic().map(|(m, l)| norm_panic(&m, &l)).unwrap_or_default());
    let td = catch_unwind(AssertUnwindSafe(|| verify_total_difficulty(se, sc, st, ee, ec, et, TAU)))
        .map_err(|_| take_last_panic().map(|(m, l)| norm_panic(&m, &l)).unwrap_or_default());
    Call { tau, td }
}

/// Normalised panic identification: message with digits squeezed + source file (no line number,
/// lines move with edits).
pub fn norm_panic(msg: &str, loc: &str) -> String {
    let mut out = String::new();
    let mut last_digit = false;
    for ch in msg.chars().take(90) {
        if ch.is_ascii_hexdigit() && (ch.is_ascii_digit() || last_digit) {
            if !last_digit {
                out.push('#');
            }
            last_digit = true;
        } else {
            last_digit = false;
            out.push(ch);
        }
    }
    let file = loc.rsplit('/').next().unwrap_or("").split(':').next().unwrap_or("");
    format!("{} @{}", out, file)
}

fn trend_name(e0: &U256, en: &U256) -> &'static str {
    if e0 == en {
        "unchanged"
    } else if e0 < en {
        "increased"
    } else {
        "decreased"
    }
}

fn parse_nk(msg: &str) -> Option<(u64, u64)> {
    let n = msg.split("n: ").nth(1)?.split(|c: char| !c.is_ascii_digit()).next()?.parse().ok()?;
    let k = msg.split("k: ").nth(1)?.split(|c: char| !c.is_ascii_digit()).next()?.parse().ok()?;
    Some((n, k))
}

fn check_legal(epochs: &[Epoch], is: u64, ie: u64, shift: u8, first_number: u32, obs: &mut Obs) -> Result<(), Failure> {
    let n = (epochs.len() - 1) as u64;
    let (e0, en) = (&epochs[0], &epochs[n as usize]);
    let se = EpochNumberWithFraction::new(first_number as u64, is, e0.len);
    let ee = EpochNumberWithFraction::new(first_number as u64 + n, ie, en.len);
    let st = start_td(shift);
    let total = true_total(epochs, is, ie);
    let et = &st + &total;
    let c = call(se, e0.compact, &st, ee, en.compact, &et);
    let desc = || {
        format!(
            "epochs(len,diff)={:?} is={} ie={} total={:#x}",
            epochs.iter().map(|e| (e.len, format!("{:#x}", diff(e.compact)))).collect::<Vec<_>>(),
            is,
            ie,
            total
        )
    };
    match &c.tau {
        Ok(Ok(true)) => {}
        Ok(Ok(false)) => return Err(Failure::new("completeness/verify_tau-false-on-legal", desc())),
        Ok(Err(s)) => return Err(Failure::new("completeness/verify_tau-err-on-legal", format!("{} :: {}", s, desc()))),
        Err(p) => return Err(Failure::new(format!("completeness/verify_tau-panic/{}", p), desc())),
    }
    match &c.td {
        Ok(Ok(())) => Ok(()),
        Err(p) => Err(Failure::new(format!("completeness/verify_total_difficulty-panic/{}", p), desc())),
        Ok(Err(msg)) => {
            let e0d = diff(e0.compact) * e0.len;
            let end = diff(en.compact) * en.len;
            let tr = trend_name(&e0d, &end);
            let sig = if msg.contains("greater than the upper limit") {
                let (nn, k) = parse_nk(msg).unwrap_or((n, 0));
                format!("completeness/td-limit/max/{}/nk-{}", tr, if (nn - k) % 2 == 0 { "even" } else { "odd" })
            } else if msg.contains("less than") && msg.contains("lower limit") {
                let (nn, k) = parse_nk(msg).unwrap_or((n, 0));
                format!("completeness/td-limit/min/{}/nk-{}", tr, if (nn - k) % 2 == 0 { "even" } else { "odd" })
            } else if msg.contains("too fast") {
                "completeness/td-too-fast-on-legal".to_string()
            } else if msg.contains("but the calculated is") {
                format!("completeness/td-equality-on-legal/n{}", n.min(1))
            } else if msg.contains("decreased") {
                "completeness/td-decreased-on-legal".to_string()
            } else {
                "completeness/td-other".to_string()
            };
            let _ = obs;
            Err(Failure::new(sig, format!("{} :: {}", msg.replace('\n', " ").split_whitespace().collect::<Vec<_>>().join(" "), desc())))
        }
    }
}

pub const CLASSES: [&str; 8] = [
    "total-decreased",
    "same-epoch-mismatch",
    "one-switch-mismatch",
    "ratio-above-tau-n",
    "ratio-below-tau-n",
    "above-free-envelope",
    "below-free-envelope",
    "same-epoch-compact-differs",
];

/// Builds an illegal input of class `class` from a legal history, or None if the class does not
/// apply to this history. Returns (se, sc, st, ee, ec, et, expect_tau_false).
#[allow(clippy::type_complexity)]
fn derive_illegal(
    epochs: &[Epoch],
    is: u64,
    ie: u64,
    shift: u8,
    first: u32,
    class: u8,
    delta: u64,
) -> Option<(EpochNumberWithFraction, u32, U256, EpochNumberWithFraction, u32, U256, Option<bool>)> {
    let n = (epochs.len() - 1) as u64;
    let (e0, en) = (&epochs[0], &epochs[n as usize]);
    let se = EpochNumberWithFraction::new(first as u64, is, e0.len);
    let ee = EpochNumberWithFraction::new(first as u64 + n, ie, en.len);
    let st = start_td(shift);
    let total = true_total(epochs, is, ie);
    let d = u(1 + delta);
    match CLASSES[class as usize % CLASSES.len()] {
        "total-decreased" => {
            if st < d {
                return None;
            }
            Some((se, e0.compact, st.clone(), ee, en.compact, &st - &d, None))
        }
        "same-epoch-mismatch" => {
            if n != 0 {
                return None;
            }
            let wrong = if delta % 2 == 0 || total < d { &total + &d } else { &total - &d };
            Some((se, e0.compact, st.clone(), ee, en.compact, &st + &wrong, None))
        }
        "one-switch-mismatch" => {
            if n != 1 {
                return None;
            }
            let wrong = if delta % 2 == 0 || total < d { &total + &d } else { &total - &d };
            Some((se, e0.compact, st.clone(), ee, en.compact, &st + &wrong, None))
        }
        "ratio-above-tau-n" => {
            if n == 0 || n > 60 {
                return None;
            }
            // end epoch difficulty strictly above E0 * tau^n: scale the end block difficulty
            let e0d = diff(e0.compact) * e0.len;
            let mut lim = e0d.clone();
            for _ in 0..n {
                lim = &lim * (TAU as u32);
            }
            // pick end length 1 and block difficulty > lim (next representable)
            let mut target = &lim + &d;
            let mut c = difficulty_to_compact(target.clone());
            let mut tries = 0;
            while compact_to_difficulty(c) <= lim {
                target = &target + (&target / 64u32) + 1u32;
                c = difficulty_to_compact(target.clone());
                tries += 1;
                if tries > 50 {
                    return None;
                }
            }
            let ee = EpochNumberWithFraction::new(first as u64 + n, 0, 1);
            Some((se, e0.compact, st.clone(), ee, c, &st + &total + compact_to_difficulty(c), Some(false)))
        }
        "ratio-below-tau-n" => {
            if n == 0 || n > 60 {
                return None;
            }
            let e0d = diff(e0.compact) * e0.len;
            let mut lim = e0d;
            for _ in 0..n {
                lim = &lim / (TAU as u32);
            }
            // need E_n < lim (floor); use end length 1 and difficulty < lim
            if lim <= u(2) {
                return None;
            }
            let want = &lim - 1u32 - (&lim / 3u32) * (delta % 2) as u32;
            let c = difficulty_to_compact(want);
            let dn = compact_to_difficulty(c);
            if dn >= lim || dn.is_zero() {
                return None;
            }
            let ee = EpochNumberWithFraction::new(first as u64 + n, 0, 1);
            Some((se, e0.compact, st.clone(), ee, c, &st + &total, Some(false)))
        }
        "above-free-envelope" => {
            if n < 2 || n > 100 {
                return None;
            }
            let e0d = diff(e0.compact) * e0.len;
            let unaligned = diff(e0.compact) * (e0.len - is - 1) + diff(en.compact) * (ie + 1);
            let mut cur = e0d;
            let mut sum = U256::zero();
            for _ in 1..n {
                cur = &cur * (TAU as u32);
                sum = &sum + &cur;
            }
            Some((se, e0.compact, st.clone(), ee, en.compact, &st + &sum + &unaligned + &d, None))
        }
        "below-free-envelope" => {
            if n < 2 {
                return None;
            }
            let e0d = diff(e0.compact) * e0.len;
            let unaligned = diff(e0.compact) * (e0.len - is - 1) + diff(en.compact) * (ie + 1);
            let mut cur = e0d;
            let mut sum = U256::zero();
            for _ in 1..n {
                cur = &cur / (TAU as u32);
                sum = &sum + &cur;
            }
            let lower = &sum + &unaligned;
            if lower < d {
                return None;
            }
            Some((se, e0.compact, st.clone(), ee, en.compact, &st + &lower - &d, None))
        }
        "same-epoch-compact-differs" => {
            if n != 0 {
                return None;
            }
            let other = difficulty_to_compact(diff(e0.compact) + 1u32 + diff(e0.compact) / 2u32);
            if other == e0.compact {
                return None;
            }
            // verify_tau must report an error (different compact targets inside one epoch)
            Some((se, e0.compact, st.clone(), ee, other, &st + &total, Some(false)))
        }
        _ => None,
    }
}

impl Property for C14 {
    type Case = Case;
    const ID: &'static str = "C14";

    fn cases(tier: Tier) -> u32 {
        match tier {
            Tier::Quick => 120_000,
            Tier::Thorough => 4_000_000,
        }
    }

    fn rule() -> &'static str {
        "cases: legal epoch histories (random walk within tau under both readings, 1..60 quick / ..3000 thorough epochs, saturation bias 0..100%), \
         illegal inputs derived from them (8 classes), arbitrary-number fuzz inputs; plus an exhaustive grid of all legal histories with <=4 (thorough <=5) \
         switches over lengths {1,2,3}(+4) and 5 (6) difficulties with every index pair. non-trivial: >=2 epoch switches with the epoch difficulty moving in \
         both directions (legal/illegal) or a fuzz input with >=2 switches; distinct by (kind, class, n bucket, trend, up/down pattern hash)"
    }

    fn strategy(tier: Tier) -> BoxedStrategy<Case> {
        let max_epochs: usize = match tier {
            Tier::Quick => 60,
            Tier::Thorough => 3000,
        };
        let maxlen = prop_oneof![Just(4u64), Just(40u64), Just(1800u64)];
        let legal = (any::<u64>(), 1usize..=max_epochs, 0u64..=100, maxlen.clone(), any::<u16>(), any::<u16>(), 0u8..=200, 0u32..100_000)
            .prop_map(|(seed, cnt, sat, maxlen, a, b, shift, first)| {
                // small counts are far more frequent than large ones
                let cnt = if seed % 4 != 0 { 1 + cnt % 8 } else { cnt };
                let epochs = gen_history(seed, cnt, sat, maxlen);
                let l0 = epochs[0].len;
                let ln = epochs[cnt - 1].len;
                let (is, ie) = if cnt == 1 {
                    let x = idx(a, l0 as usize) as u64;
                    let y = idx(b, l0 as usize) as u64;
                    (x.min(y), x.max(y))
                } else {
                    (idx(a, l0 as usize) as u64, idx(b, ln as usize) as u64)
                };
                Case::Legal { epochs, is, ie, start_td_shift: shift, first_number: first }
            });
        let illegal = (legal.clone(), 0u8..8, prop_oneof![Just(0u64), Just(1u64), any::<u32>().prop_map(|x| x as u64)]).prop_map(|(l, class, delta)| match l {
            Case::Legal { epochs, is, ie, start_td_shift, first_number } => {
                // steer the history length towards what the class needs
                let epochs = match CLASSES[class as usize] {
                    "same-epoch-mismatch" | "same-epoch-compact-differs" => epochs[..1].to_vec(),
                    "one-switch-mismatch" if epochs.len() >= 2 => epochs[..2].to_vec(),
                    _ => epochs,
                };
                let n = epochs.len() - 1;
                let is = is.min(epochs[0].len - 1);
                let mut ie = ie.min(epochs[n].len - 1);
                if n == 0 && ie < is {
                    ie = is;
                }
                Case::Illegal { epochs, is, ie, start_td_shift, first_number, class, delta }
            }
            other => other,
        });
        let word = prop_oneof![Just(0u64), Just(1u64), Just(u64::MAX), any::<u64>()];
        let epoch_bits = prop_oneof![
            any::<u64>(),
            (0u64..4, 0u64..4, 0u64..4).prop_map(|(n, i, l)| (l << 40) | (i << 24) | n),
            // well-formed epochs on a tiny number range: same epoch number with different (index, length) pairs is frequent
            (0u64..3, 1u64..13, any::<u16>()).prop_map(|(n, l, i)| (l << 40) | (((i as u64 * l) >> 16) << 24) | n),
            (any::<u32>(), 0u64..70000, 0u64..70000).prop_map(|(n, i, l)| ((l & 0xffff) << 40) | ((i & 0xffff) << 24) | (n as u64 & 0xff_ffff)),
        ];
        let compact = prop_oneof![Just(0u32), Just(1u32), Just(0x0100_0001u32), Just(0x20ff_ffffu32), Just(0x2100_ffffu32), Just(0x1a08_0000u32), any::<u32>()];
        let fuzz = (epoch_bits.clone(), compact.clone(), [word.clone(), word.clone(), word.clone(), word.clone()], epoch_bits, compact, [word.clone(), word.clone(), word.clone(), word])
            .prop_map(|(se, sc, st, ee, ec, et)| Case::Fuzz { se, sc, st, ee, ec, et });
        prop_oneof![5 => legal, 3 => illegal, 2 => fuzz].boxed()
    }

    fn run(case: &Case, obs: &mut Obs) -> Result<(), Failure> {
        match case {
            Case::Legal { epochs, is, ie, start_td_shift, first_number } => {
                obs.label("legal");
                if !is_legal(epochs) {
                    obs.label("generator-produced-illegal(skipped)");
                    return Ok(());
                }
                classify(epochs, "legal", 0, obs);
                check_legal(epochs, *is, *ie, *start_td_shift, *first_number, obs)
            }
            Case::Illegal { epochs, is, ie, start_td_shift, first_number, class, delta } => {
                let cname = CLASSES[*class as usize % CLASSES.len()];
                if !is_legal(epochs) {
                    return Ok(());
                }
                let built = derive_illegal(epochs, *is, *ie, *start_td_shift, *first_number, *class, *delta);
                let (se, sc, st, ee, ec, et, expect_tau) = match built {
                    Some(b) => b,
                    None => {
                        obs.label(format!("illegal-class-not-applicable:{}", cname));
                        return Ok(());
                    }
                };
                obs.label(format!("illegal:{}", cname));
                classify(epochs, "illegal", *class, obs);
                let c = call(se, sc, &st, ee, ec, &et);
                let desc = format!("class={} se={:#} sc={:#x} st={:#x} ee={:#} ec={:#x} et={:#x}", cname, se, sc, st, ee, ec, et);
                if let Err(p) = &c.tau {
                    return Err(Failure::new(format!("noabort/verify_tau/{}", p), desc));
                }
                if let Err(p) = &c.td {
                    return Err(Failure::new(format!("noabort/verify_total_difficulty/{}", p), desc));
                }
                if expect_tau == Some(false) {
                    if let Ok(Ok(true)) = c.tau {
                        return Err(Failure::new(format!("soundness/verify_tau-accepts/{}", cname), desc));
                    }
                }
                if cname != "same-epoch-compact-differs" {
                    if let Ok(Ok(())) = c.td {
                        return Err(Failure::new(format!("soundness/verify_total_difficulty-accepts/{}", cname), desc));
                    }
                }
                Ok(())
            }
            Case::Fuzz { se, sc, st, ee, ec, et } => {
                obs.label("fuzz");
                let se_ = EpochNumberWithFraction::from_full_value_unchecked(*se);
                let ee_ = EpochNumberWithFraction::from_full_value_unchecked(*ee);
                if ee_.number() >= se_.number() + 2 {
                    obs.nontrivial(("fuzz", (ee_.number() - se_.number()).min(8), se_.length() == 0, se_.index() >= se_.length(), ee_.length() == 0));
                }
                let c = call(se_, *sc, &U256(*st), ee_, *ec, &U256(*et));
                let desc = format!("se={:#x} sc={:#x} st={:#x} ee={:#x} ec={:#x} et={:#x}", se, sc, U256(*st), ee, ec, U256(*et));
                if let Err(p) = &c.tau {
                    return tolerate(obs, Failure::new(format!("noabort/verify_tau/{}", p), desc));
                }
                if let Err(p) = &c.td {
                    return tolerate(obs, Failure::new(format!("noabort/verify_total_difficulty/{}", p), desc));
                }
                Ok(())
            }
        }
    }

    fn extra(tier: Tier, acc: &mut Acc) {
        grid(tier, acc);
    }
}

fn classify(epochs: &[Epoch], kind: &str, class: u8, obs: &mut Obs) {
    let n = epochs.len() - 1;
    let es: Vec<U256> = epochs.iter().map(|e| diff(e.compact) * e.len).collect();
    let ups = es.windows(2).filter(|w| w[1] > w[0]).count();
    let downs = es.windows(2).filter(|w| w[1] < w[0]).count();
    obs.label(format!("switches:{}", match n { 0 => "0", 1 => "1", 2..=4 => "2-4", 5..=20 => "5-20", 21..=200 => "21-200", _ => ">200" }));
    if n >= 2 && ups > 0 && downs > 0 {
        // pattern hash: the sequence of up/down/flat moves (bounded length) keeps distinct shapes apart
        let pat: Vec<u8> = es.windows(2).take(24).map(|w| if w[1] > w[0] { 2 } else if w[1] < w[0] { 0 } else { 1 }).collect();
        obs.nontrivial((kind, class, n.min(64), trend_name(&es[0], &es[n]), pat));
    }
}

/// Exhaustive enumeration of all legal histories on a small grid (ground truth by construction).
fn grid(tier: Tier, acc: &mut Acc) {
    let (lens, ds, max_n): (Vec<u64>, Vec<u64>, usize) = match tier {
        Tier::Quick => (vec![1, 2, 3], vec![16, 32, 64, 128, 256], 4),
        Tier::Thorough => (vec![1, 2, 3, 4], vec![16, 24, 32, 64, 128, 256], 5),
    };
    let cts: Vec<u32> = ds.iter().map(|d| exact_compact(*d).expect("grid difficulty exactly representable")).collect();
    let known = KNOWN.with(|k| k.borrow().clone());
    let mut total = 0u64;
    let mut nontrivial = 0u64;
    let mut rejected_known = 0u64;
    fn rec(seq: &mut Vec<(u64, usize)>, want: usize, lens: &[u64], ds: &[u64], f: &mut dyn FnMut(&[(u64, usize)])) {
        if seq.len() == want {
            f(seq);
            return;
        }
        for &l in lens {
            for di in 0..ds.len() {
                if let Some(&(pl, pdi)) = seq.last() {
                    let (pd, d) = (ds[pdi], ds[di]);
                    if d > pd * 2 || d * 2 < pd {
                        continue;
                    }
                    let (pe, e) = (pd * pl, d * l);
                    if e > pe * 2 || e * 2 < pe {
                        continue;
                    }
                }
                seq.push((l, di));
                rec(seq, want, lens, ds, f);
                seq.pop();
            }
        }
    }
    let mut new_failures: Vec<(Failure, serde_json::Value)> = vec![];
    let mut sig_hist: std::collections::BTreeMap<String, u64> = Default::default();
    for n in 0..=max_n {
        let mut seq = vec![];
        let mut f = |s: &[(u64, usize)]| {
            let epochs: Vec<Epoch> = s.iter().map(|(l, di)| Epoch { len: *l, compact: cts[*di] }).collect();
            let (ls, le) = (s[0].0, s[s.len() - 1].0);
            for is in 0..ls {
                for ie in 0..le {
                    if n == 0 && ie < is {
                        continue;
                    }
                    total += 1;
                    let es: Vec<u64> = s.iter().map(|(l, di)| l * ds[*di]).collect();
                    let ups = es.windows(2).any(|w| w[1] > w[0]);
                    let downs = es.windows(2).any(|w| w[1] < w[0]);
                    if n >= 2 && ups && downs {
                        nontrivial += 1;
                    }
                    let mut obs = Obs::default();
                    if let Err(fl) = check_legal(&epochs, is, ie, 10, 10, &mut obs) {
                        let cv = json!({"Legal": {"epochs": epochs, "is": is, "ie": ie, "start_td_shift": 10, "first_number": 10}});
                        *sig_hist.entry(fl.signature.clone()).or_default() += 1;
                        if known.contains(&fl.signature) {
                            rejected_known += 1;
                            acc.known_hit(&fl.signature, &fl.message, cv);
                        } else if !new_failures.iter().any(|(f, _)| f.signature == fl.signature) {
                            new_failures.push((fl, cv));
                        }
                    }
                }
            }
        };
        rec(&mut seq, n + 1, &lens, &ds, &mut f);
    }
    // Near the top of the 256-bit range: epoch difficulties between 2^253 and 2^256, two epoch switches, all epochs of
    // 1024 blocks (so that the accumulated total, about one middle epoch, is still representable). `start * tau^n`
    // overflows here although every legal end value fits.
    let mut top = 0u64;
    {
        let len = 1024u64;
        let ratios: [(u32, u32); 5] = [(1, 1), (5, 4), (3, 2), (7, 4), (2, 1)];
        let two = |k: u32| {
            let mut v = U256::one();
            for _ in 0..k {
                v = &v * 2u32;
            }
            v
        };
        for a in 3u32..=15 {
            for (n1, d1) in ratios {
                for (n2, d2) in ratios {
                    let d0 = U256::from(a) * two(242);
                    let dd1 = &d0 * n1 / d1;
                    let dd2 = &dd1 * n2 / d2;
                    if dd2 >= two(246) {
                        continue;
                    }
                    // the difficulties a compact target can express (as the random generator does)
                    let cs: Vec<u32> = [&d0, &dd1, &dd2].iter().map(|d| difficulty_to_compact((*d).clone())).collect();
                    let rs: Vec<U256> = cs.iter().map(|c| compact_to_difficulty(*c)).collect();
                    if rs[2] >= two(246) || rs.windows(2).any(|w| w[1] > &w[0] * 2u32 || &w[1] * 2u32 < w[0]) {
                        continue;
                    }
                    let epochs: Vec<Epoch> = cs.iter().map(|c| Epoch { len, compact: *c }).collect();
                    top += 1;
                    let mut obs = Obs::default();
                    if let Err(fl) = check_legal(&epochs, len - 1, 0, 10, 10, &mut obs) {
                        let cv = json!({"Legal": {"epochs": epochs, "is": len - 1, "ie": 0, "start_td_shift": 10, "first_number": 10}});
                        *sig_hist.entry(fl.signature.clone()).or_default() += 1;
                        if known.contains(&fl.signature) {
                            rejected_known += 1;
                            acc.known_hit(&fl.signature, &fl.message, cv);
                        } else if !new_failures.iter().any(|(f, _)| f.signature == fl.signature) {
                            new_failures.push((fl, cv));
                        }
                    }
                }
            }
        }
    }
    total += top;
    acc.count_label("grid:near-top-of-256-bit-range", top);
    for (fl, cv) in new_failures {
        acc.fail(&fl, cv);
    }
    acc.evaluations += total;
    acc.count_label("grid:legal-histories", total);
    acc.count_label("grid:nontrivial", nontrivial);
    acc.count_label("grid:rejected(known-finding)", rejected_known);
    acc.extra.insert(
        "grid".into(),
        json!({"lengths": lens, "difficulties": ds, "max_switches": max_n, "legal_cases": total, "nontrivial": nontrivial,
               "rejected_by_known_finding": rejected_known, "rejections_by_signature": sig_hist, "exhaustive": true}),
    );
    acc.distinct_extra += nontrivial;
}
