//! C18 — send_transaction admits only verifiable transactions; the pool is bounded; relays once per peer.
//!
//! A synced client (registered scripts, so their cells are indexed) receives a history of submissions built from
//! cells it knows (indexed, fetched or pending outputs), each either valid by construction or carrying exactly one
//! invalidating mutation; estimate_cycles, get_transaction, relay connects, relay timers and GetRelayTransactions
//! requests in between. Oracles: Ok <=> valid by construction; cycles = what ckb-script reports for the harness's
//! own resolution of the transaction from the chain; the pool = insertion-ordered model capped at 64; a rejected or
//! evicted transaction is unknown, never announced and never served; every (peer, hash) is announced at most once.

use std::collections::{BTreeMap, BTreeSet, HashSet, VecDeque};
use std::sync::Arc;

use ckb_network::{bytes::Bytes as P2pBytes, CKBProtocolHandler, PeerIndex, SupportProtocols};
use ckb_traits::{CellDataProvider, ExtensionProvider, HeaderProvider};
use ckb_types::{
    bytes::Bytes,
    core::{
        cell::{CellMeta, ResolvedTransaction},
        hardfork::HardForks,
        Capacity, DepType, HeaderView, ScriptHashType, TransactionBuilder, TransactionInfo, TransactionView,
    },
    packed::{self, Byte32, CellDep, CellInput, CellOutput, OutPoint, Script},
    prelude::*,
    H256,
};
use ckb_verification::TxVerifyEnv;
use proptest::prelude::*;
use serde::{Deserialize, Serialize};
use serde_json::json;

use crate::lcv::pbt::*;
use crate::lcv::props::common::*;
use crate::lcv::sim::chain::{as_code_hash, gate_lock, gen_epochs, universe_lock, universe_type, Chain, TxGen};
use crate::lcv::sim::net::ctx;
use crate::service::{ChainRpc, Status as TxStatusKind, TransactionRpc};

#[derive(Debug, Clone, Serialize, Deserialize)]
pub enum Mutation {
    /// outputs carry more capacity than the inputs
    CapacityOverflow,
    /// an output below its occupied capacity
    OutputBelowOccupied,
    DuplicatedInput,
    UnknownInput,
    UnknownDep,
    MissingCodeDep,
    DuplicatedDep,
    /// absolute block-number since beyond the next block
    SinceImmature,
    NoOutputs,
    NoInputs,
    OutputsDataMismatch,
    /// output type script whose code is not in the deps
    UnknownTypeCode,
    /// an input whose lock can not be resolved (hash_type `type` with a data hash)
    UnresolvableLock,
    // --- verdict-preserving ---
    Witness(u8),
    ReverseOutputs,
    /// witnesses[0] starts with a non-zero byte: invalid iff an input is locked by the witness-gate script
    BadWitness,
    /// the same out point in two inputs whose `since` fields differ (both mature): still a double spend inside one transaction
    DuplicatedInputOtherSince,
}

impl Mutation {
    fn invalidates(&self) -> bool {
        !matches!(self, Mutation::Witness(_) | Mutation::ReverseOutputs | Mutation::BadWitness)
    }
}

#[derive(Debug, Clone, Serialize, Deserialize)]
pub struct TxSpec {
    pub inputs: Vec<u16>,
    pub n_out: u8,
    pub fee: u16,
    pub typed: bool,
    pub data_len: u8,
    /// use outputs of pending transactions as inputs when possible
    pub chain_on_pending: bool,
    pub salt: u16,
}

#[derive(Debug, Clone, Serialize, Deserialize)]
pub enum Ev {
    Submit { spec: TxSpec, mutation: Option<Mutation>, estimate_first: bool },
    Estimate { spec: TxSpec, mutation: Option<Mutation> },
    /// many valid, distinct submissions
    Burst(u8),
    GetTx(u16),
    RelayConnect,
    RelayDisconnect(u8),
    RelayTick,
    GetRelayTxs(Vec<u16>),
    NewPeer,
    /// the raw transaction of a pool member again, with other witnesses (same hash): good ones or non-verifying ones
    ResubmitWithOtherWitness { which: u16, bad: bool, estimate: bool },
}

#[derive(Debug, Clone, Serialize, Deserialize)]
pub struct Case {
    pub chain: ChainParams,
    pub net: NetParams,
    pub initial: Vec<RegSpec>,
    pub events: Vec<Ev>,
}

pub struct C18;

#[derive(Clone)]
struct Known {
    op: OutPoint,
    output: CellOutput,
    data: Bytes,
    /// (block number, tx index) when committed
    at: Option<(u64, u32)>,
}

#[derive(Clone)]
struct NoLoader;
impl CellDataProvider for NoLoader {
    fn get_cell_data(&self, _o: &OutPoint) -> Option<Bytes> {
        None
    }
    fn get_cell_data_hash(&self, _o: &OutPoint) -> Option<Byte32> {
        None
    }
}
impl HeaderProvider for NoLoader {
    fn get_header(&self, _h: &Byte32) -> Option<HeaderView> {
        None
    }
}
impl ExtensionProvider for NoLoader {
    fn get_block_extension(&self, _h: &Byte32) -> Option<packed::Bytes> {
        None
    }
}

fn spendable(lock: &Script) -> bool {
    (lock.code_hash() == as_code_hash() && lock.hash_type() == ScriptHashType::Data.into()) || lock == &gate_lock()
}

fn has_gate_input(inputs: &[Known]) -> bool {
    inputs.iter().any(|k| k.output.lock() == gate_lock())
}

fn meta(k: &Known, chain: &Chain) -> CellMeta {
    CellMeta {
        out_point: k.op.clone(),
        cell_output: k.output.clone(),
        transaction_info: k.at.map(|(n, i)| TransactionInfo { block_hash: chain.blocks[n as usize].hash(), block_epoch: chain.blocks[n as usize].epoch(), block_number: n, index: i as usize }),
        data_bytes: k.data.len() as u64,
        mem_cell_data: Some(k.data.clone()),
        mem_cell_data_hash: Some(CellOutput::calc_data_hash(&k.data)),
    }
}

/// The harness's own script run: resolution from the chain / the model, no client code.
fn own_cycles(tx: &TransactionView, inputs: &[Known], code: &[Known], chain: &Chain, tip: &HeaderView) -> Result<u64, String> {
    let rtx = ResolvedTransaction { transaction: tx.clone(), resolved_cell_deps: code.iter().map(|c| meta(c, chain)).collect(), resolved_inputs: inputs.iter().map(|k| meta(k, chain)).collect(), resolved_dep_groups: vec![] };
    let consensus = Arc::new(chain.consensus.clone());
    let env = Arc::new(TxVerifyEnv::new_submit(tip));
    let _ = HardForks::new_mirana();
    ckb_script::TransactionScriptsVerifier::new(Arc::new(rtx), NoLoader, consensus.clone(), env).verify(consensus.max_block_cycles()).map_err(|e| format!("{:?}", e))
}

struct Model {
    /// pool in insertion order: (hash, tx, cycles)
    pool: VecDeque<(Byte32, TransactionView, u64)>,
    accepted: Vec<Byte32>,
    rejected: Vec<Byte32>,
    evicted: Vec<Byte32>,
    /// (peer, hash) announced
    announced: HashSet<(usize, Byte32)>,
    relay_open: BTreeSet<usize>,
    salt: u64,
}

struct Built {
    tx: TransactionView,
    inputs: Vec<Known>,
    valid: bool,
    why: String,
}

fn known_cells(sim: &Sim, model: &Model, prefer_pending: bool) -> Vec<Known> {
    let chain = &sim.w.chains[sim.main];
    let mut v = vec![];
    // pending outputs
    if prefer_pending {
        for (_, tx, _) in model.pool.iter() {
            for (i, (o, d)) in tx.outputs_with_data_iter().enumerate() {
                if spendable(&o.lock()) {
                    v.push(Known { op: OutPoint::new(tx.hash(), i as u32), output: o, data: d, at: None });
                }
            }
        }
    }
    // indexed cells of the registered scripts (their creating transactions are stored by the client)
    let mut ops: Vec<&OutPoint> = chain.cells.keys().collect();
    ops.sort_by_key(|o| (chain.cells[*o].block, chain.cells[*o].tx_index, Unpack::<u32>::unpack(&o.index())));
    for op in ops {
        let ci = &chain.cells[op];
        // (cellbase outputs need the cellbase maturity of the chain spec: not used as inputs)
        if ci.spent_at.is_some() || !spendable(&ci.output.lock()) || (ci.tx_index == 0 && ci.block > 0) || ci.data.len() > 100 {
            continue;
        }
        let indexed = sim.regs.values().any(|r| r.matches(&ci.output) && r.in_range(ci.block));
        if indexed {
            v.push(Known { op: op.clone(), output: ci.output.clone(), data: ci.data.clone(), at: Some((ci.block, ci.tx_index)) });
        }
    }
    v
}

/// The code cells of the genesis block: always-success (output 0) and the witness gate (output 11).
fn code_cells(chain: &Chain) -> Vec<Known> {
    let tx = chain.blocks[0].transactions()[0].clone();
    let outs: Vec<(CellOutput, Bytes)> = tx.outputs_with_data_iter().collect();
    [0usize, 11].iter().filter(|i| **i < outs.len()).map(|i| Known { op: OutPoint::new(tx.hash(), *i as u32), output: outs[*i].0.clone(), data: outs[*i].1.clone(), at: Some((0, 0)) }).collect()
}

const MIN_CELL: u64 = 200 * 100_000_000;

fn build(sim: &Sim, model: &mut Model, spec: &TxSpec, mutation: &Option<Mutation>) -> Option<Built> {
    let chain = &sim.w.chains[sim.main];
    let tipn: u64 = sim.w.storage().get_tip_header().raw().number().unpack();
    let cells = known_cells(sim, model, spec.chain_on_pending);
    if cells.is_empty() {
        return None;
    }
    let mut inputs: Vec<Known> = vec![];
    for sel in spec.inputs.iter().take(3) {
        let k = cells[idx(*sel, cells.len())].clone();
        if !inputs.iter().any(|x| x.op == k.op) {
            inputs.push(k);
        }
    }
    let total: u64 = inputs.iter().map(|k| Unpack::<Capacity>::unpack(&k.output.capacity()).as_u64()).sum();
    if total < MIN_CELL + 1000 {
        return None;
    }
    model.salt += 1;
    let n_out = (1 + spec.n_out as u64 % 3).min(total / MIN_CELL).max(1);
    let fee = spec.fee as u64;
    let mut outs: Vec<(CellOutput, Bytes)> = vec![];
    let mut left = total - fee;
    for j in 0..n_out {
        let cap = if j + 1 == n_out { left } else { MIN_CELL };
        left -= cap;
        // distinct transactions: the salt goes into the data of the first output
        let data: Vec<u8> = if j == 0 { model.salt.to_le_bytes().iter().cloned().chain((0..spec.data_len % 20).map(|x| x ^ spec.salt as u8)).collect() } else { vec![] };
        let mut ob = CellOutput::new_builder().capacity(Capacity::shannons(cap).pack()).lock(universe_lock((spec.salt as usize + j as usize) % 4));
        if spec.typed && j == 0 {
            ob = ob.type_(Some(universe_type(spec.salt as usize % 2)).pack());
        }
        outs.push((ob.build(), Bytes::from(data)));
    }
    let code = code_cells(chain);
    let mut deps: Vec<CellDep> = code.iter().map(|c| CellDep::new_builder().out_point(c.op.clone()).dep_type(DepType::Code.into()).build()).collect();
    let mut cell_inputs: Vec<CellInput> = inputs.iter().map(|k| CellInput::new(k.op.clone(), 0)).collect();
    // a gate-locked input needs witnesses[0] to start with 0
    let mut witnesses: Vec<packed::Bytes> = if has_gate_input(&inputs) { vec![Bytes::from(vec![0u8, model.salt as u8]).pack()] } else { vec![] };
    let header_deps: Vec<Byte32> = vec![];
    let mut valid = true;
    let mut why = "valid".to_string();
    let mut data_mismatch = false;
    if let Some(m) = mutation {
        why = format!("{:?}", m);
        valid = !m.invalidates();
        match m {
            Mutation::CapacityOverflow => {
                let (o, d) = outs.pop().unwrap();
                let c: Capacity = o.capacity().unpack();
                outs.push((o.as_builder().capacity(Capacity::shannons(c.as_u64() + fee + 1 + spec.salt as u64).pack()).build(), d));
            }
            Mutation::OutputBelowOccupied => {
                let (o, d) = outs.remove(0);
                outs.insert(0, (o.as_builder().capacity(Capacity::shannons(30 * 100_000_000).pack()).build(), d));
            }
            Mutation::DuplicatedInput => cell_inputs.push(cell_inputs[0].clone()),
            Mutation::DuplicatedInputOtherSince => {
                // absolute block number 1 (or 2): reached long ago, so only the duplicated out point can reject it
                let first: u64 = cell_inputs[0].since().unpack();
                let other = if first == 1 { 2 } else { 1 };
                cell_inputs.push(CellInput::new(inputs[0].op.clone(), other));
            }
            Mutation::UnknownInput => {
                let h = Byte32::from_slice(&[0x5a ^ spec.salt as u8; 32]).unwrap();
                cell_inputs.push(CellInput::new(OutPoint::new(h, 0), 0));
            }
            Mutation::UnknownDep => {
                let h = Byte32::from_slice(&[0x3c ^ spec.salt as u8; 32]).unwrap();
                deps.push(CellDep::new_builder().out_point(OutPoint::new(h, 1)).dep_type(DepType::Code.into()).build());
            }
            Mutation::MissingCodeDep => deps.clear(),
            Mutation::DuplicatedDep => deps.push(deps[0].clone()),
            Mutation::SinceImmature => {
                // absolute block number (flags 0), far beyond tip + 1 + the proposal window the submit environment looks ahead
                cell_inputs[0] = CellInput::new(inputs[0].op.clone(), tipn + 100 + spec.salt as u64 % 100);
            }
            Mutation::NoOutputs => outs.clear(),
            Mutation::NoInputs => cell_inputs.clear(),
            Mutation::OutputsDataMismatch => data_mismatch = true,
            Mutation::UnknownTypeCode => {
                let (o, d) = outs.remove(0);
                let t = Script::new_builder().code_hash(Byte32::from_slice(&[7u8; 32]).unwrap()).hash_type(ScriptHashType::Data.into()).build();
                outs.insert(0, (o.as_builder().type_(Some(t).pack()).build(), d));
            }
            Mutation::UnresolvableLock => {
                // a known cell whose lock names the code by a type hash nobody has
                let bad = chain.cells.iter().filter(|(_, ci)| ci.spent_at.is_none() && ci.output.lock() == universe_lock(4) && sim.regs.values().any(|r| r.matches(&ci.output) && r.in_range(ci.block))).min_by_key(|(o, ci)| (ci.block, ci.tx_index, Unpack::<u32>::unpack(&o.index())));
                match bad {
                    Some((op, ci)) => {
                        cell_inputs.push(CellInput::new(op.clone(), 0));
                        inputs.push(Known { op: op.clone(), output: ci.output.clone(), data: ci.data.clone(), at: Some((ci.block, ci.tx_index)) });
                        // keep capacity balanced: the extra input only adds capacity
                    }
                    None => return None,
                }
            }
            Mutation::Witness(n) => witnesses = (0..(1 + n % 3)).map(|i| Bytes::from(vec![i; *n as usize % 40]).pack()).collect(),
            Mutation::ReverseOutputs => outs.reverse(),
            Mutation::BadWitness => {
                witnesses = vec![Bytes::from(vec![1u8 + spec.salt as u8 % 200]).pack()];
                valid = !has_gate_input(&inputs);
            }
        }
    }
    let mut b = TransactionBuilder::default().cell_deps(deps).inputs(cell_inputs).header_deps(header_deps).witnesses(witnesses);
    for (o, d) in &outs {
        b = b.output(o.clone()).output_data(d.pack());
    }
    if data_mismatch {
        b = b.output_data(Bytes::from(vec![1u8]).pack());
    }
    Some(Built { tx: b.build(), inputs, valid, why })
}

fn relay_ctx(sim: &Sim) -> Arc<dyn ckb_network::CKBProtocolContext + Sync> {
    ctx(&sim.w.shared, SupportProtocols::RelayV2)
}

/// Collects what the client sent on the relay protocol since the last call.
fn take_relay_messages(sim: &mut Sim) -> Vec<(PeerIndex, packed::RelayMessage)> {
    let id = SupportProtocols::RelayV2.protocol_id();
    let mut out = vec![];
    let mut q = sim.w.shared.sent.lock().unwrap();
    let mut i = 0;
    while i < q.len() {
        if q[i].0 == id {
            let (_, p, d) = q.remove(i).unwrap();
            if let Ok(m) = packed::RelayMessage::from_slice(&d) {
                out.push((p, m));
            }
        } else {
            i += 1;
        }
    }
    out
}

fn check_announcements(sim: &mut Sim, model: &mut Model, when: &str) -> Result<(), Failure> {
    for (peer, m) in take_relay_messages(sim) {
        if let packed::RelayMessageUnion::RelayTransactionHashes(h) = m.to_enum() {
            for hash in h.tx_hashes().into_iter() {
                if !model.pool.iter().any(|(x, _, _)| x == &hash) {
                    let kind = if model.rejected.contains(&hash) {
                        "rejected"
                    } else if model.evicted.contains(&hash) {
                        "evicted"
                    } else {
                        "unknown"
                    };
                    return Err(Failure::new(format!("announced-a-{}-transaction", kind), format!("{}: {:#x} announced to peer {} is not in the pool", when, hash, peer)));
                }
                if !model.announced.insert((peer.value(), hash.clone())) {
                    return Err(Failure::new("announced-twice-to-the-same-peer", format!("{}: {:#x} announced to peer {} again", when, hash, peer)));
                }
            }
        }
    }
    Ok(())
}

fn submit(sim: &mut Sim, model: &mut Model, b: &Built, estimate_first: bool, only_estimate: bool, obs: &mut Obs) -> Result<(), Failure> {
    let chain = &sim.w.chains[sim.main];
    let tip = sim.w.storage().get_tip_header().into_view();
    let code = code_cells(chain);
    let json_tx: ckb_jsonrpc_types::Transaction = b.tx.data().into();
    let expected = if b.valid { Some(own_cycles(&b.tx, &b.inputs, &code, chain, &tip)) } else { None };
    if let Some(Err(e)) = &expected {
        // the harness believes the transaction is valid but its own script run disagrees: a generator bug, not a verdict
        return Err(Failure::new("harness/own-verification-failed", format!("{} :: {}", b.why, e)));
    }
    let want_cycles = expected.map(|r| r.unwrap());
    if estimate_first || only_estimate {
        let r = sim.w.chain_rpc().estimate_cycles(json_tx.clone());
        match (&r, b.valid) {
            (Ok(c), true) => {
                let got: u64 = c.cycles.into();
                if Some(got) != want_cycles {
                    return Err(Failure::new("estimate_cycles/wrong-cycles", format!("got {} want {:?} ({})", got, want_cycles, b.why)));
                }
            }
            (Err(_), false) => {}
            (Ok(_), false) => return Err(Failure::new(format!("estimate_cycles/accepted-invalid/{}", b.why.split('(').next().unwrap_or("")), format!("{:#x}", b.tx.hash()))),
            (Err(e), true) => return Err(Failure::new("estimate_cycles/rejected-valid", format!("{} :: {:?}", b.why, e))),
        }
        // estimating never stores anything
        if !model.pool.iter().any(|(h, _, _)| h == &b.tx.hash()) {
            let st = sim.w.tx_rpc().get_transaction(b.tx.hash().unpack()).map_err(|e| Failure::new("rpc-error", format!("{:?}", e)))?;
            if !matches!(st.tx_status.status, TxStatusKind::Unknown) {
                return Err(Failure::new("estimate_cycles/stored-the-transaction", format!("{:#x}", b.tx.hash())));
            }
        }
        if only_estimate {
            return Ok(());
        }
    }
    let r = sim.w.tx_rpc().send_transaction(json_tx);
    match (&r, b.valid) {
        (Ok(h), true) => {
            if h != &Unpack::<H256>::unpack(&b.tx.hash()) {
                return Err(Failure::new("send_transaction/wrong-hash", format!("{:#x}", h)));
            }
            let hash = b.tx.hash();
            model.pool.retain(|(x, _, _)| x != &hash);
            model.pool.push_back((hash.clone(), b.tx.clone(), want_cycles.unwrap()));
            if model.pool.len() > 64 {
                let (old, _, _) = model.pool.pop_front().unwrap();
                model.evicted.push(old);
                obs.label("evicted");
            }
            model.accepted.push(hash);
        }
        (Err(_), false) => {
            model.rejected.push(b.tx.hash());
            obs.label(format!("rejected:{}", b.why.split('(').next().unwrap_or("")));
        }
        (Ok(_), false) => return Err(Failure::new(format!("send_transaction/accepted-invalid/{}", b.why.split('(').next().unwrap_or("")), format!("{:#x}", b.tx.hash()))),
        (Err(e), true) => return Err(Failure::new(format!("send_transaction/rejected-valid/{}", b.why.split('(').next().unwrap_or("")), format!("{:?}", e))),
    }
    Ok(())
}

fn check_get_transaction(sim: &Sim, model: &Model, hash: &Byte32) -> Result<(), Failure> {
    let st = sim.w.tx_rpc().get_transaction(hash.unpack()).map_err(|e| Failure::new("rpc-error", format!("{:?}", e)))?;
    let in_pool = model.pool.iter().find(|(h, _, _)| h == hash);
    match (&st.tx_status.status, in_pool) {
        (TxStatusKind::Pending, Some((_, tx, cycles))) => {
            let got: Option<u64> = st.cycles.map(Into::into);
            if got != Some(*cycles) {
                return Err(Failure::new("get_transaction/pending-with-wrong-cycles", format!("{:#x}: {:?} want {}", hash, got, cycles)));
            }
            let body: Option<packed::Transaction> = st.transaction.map(|t| t.inner.into());
            if body.map(|b| b.as_slice().to_vec()) != Some(tx.data().as_slice().to_vec()) {
                return Err(Failure::new("get_transaction/pending-with-other-body", format!("{:#x}", hash)));
            }
            Ok(())
        }
        (TxStatusKind::Unknown, None) => Ok(()),
        (TxStatusKind::Unknown, Some(_)) => Err(Failure::new("get_transaction/pool-member-unknown", format!("{:#x}", hash))),
        (s, None) => {
            let kind = if model.rejected.contains(hash) {
                "rejected"
            } else if model.evicted.contains(hash) {
                "evicted"
            } else {
                "never-submitted"
            };
            Err(Failure::new(format!("get_transaction/{}-transaction-reported", kind), format!("{:#x}: {}", hash, serde_json::to_string(s).unwrap_or_default())))
        }
        (TxStatusKind::Committed, Some(_)) => Err(Failure::new("get_transaction/pending-reported-committed", format!("{:#x}", hash))),
    }
}

fn all_hashes(model: &Model) -> Vec<Byte32> {
    let mut v: Vec<Byte32> = model.accepted.iter().chain(model.rejected.iter()).cloned().collect();
    v.push(Byte32::from_slice(&[0xee; 32]).unwrap());
    v
}

impl Property for C18 {
    type Case = Case;
    const ID: &'static str = "C18";

    fn cases(tier: Tier) -> u32 {
        match tier {
            Tier::Quick => 6000,
            Tier::Thorough => 40_000,
        }
    }

    fn rule() -> &'static str {
        "cases: a synced client with registered scripts x a history of send_transaction / estimate_cycles for transactions built from cells the client knows (indexed cells and outputs of pending transactions, 1..3 inputs, always-success lock and type scripts with the code cell as dep), each valid by construction or with exactly one mutation \
         (invalidating: outputs above inputs, output below occupied capacity, duplicated / unknown input, unknown / missing / duplicated dep, immature since, no inputs, no outputs, outputs / data mismatch, unknown type code, unresolvable lock; preserving: witnesses, output order), bursts beyond the pool limit of 64, \
         get_transaction of accepted / rejected / evicted / unknown hashes, relay connects and disconnects, relay timers, GetRelayTransactions. \
         Oracles: Ok <=> valid by construction; cycles = ckb-script on the harness's own resolution; estimate_cycles stores nothing; pool = insertion-ordered model capped at 64; rejected / evicted transactions are unknown, never announced, never served; each (peer, hash) announced at most once. \
         non-trivial: a history with a rejected mutation and (an eviction or two relay peers); distinct by (mutations seen, eviction, #relay peers, history hash)"
    }

    fn strategy(_tier: Tier) -> BoxedStrategy<Case> {
        let spec = || {
            (prop::collection::vec(any::<u16>(), 1..4), any::<u8>(), any::<u16>(), any::<bool>(), any::<u8>(), prop::bool::weighted(0.4), any::<u16>())
                .prop_map(|(inputs, n_out, fee, typed, data_len, chain_on_pending, salt)| TxSpec { inputs, n_out, fee, typed, data_len, chain_on_pending, salt })
        };
        let mutation = || {
            prop_oneof![
                Just(Mutation::CapacityOverflow),
                Just(Mutation::OutputBelowOccupied),
                Just(Mutation::DuplicatedInput),
                Just(Mutation::DuplicatedInputOtherSince),
                Just(Mutation::UnknownInput),
                Just(Mutation::UnknownDep),
                Just(Mutation::MissingCodeDep),
                Just(Mutation::DuplicatedDep),
                Just(Mutation::SinceImmature),
                Just(Mutation::NoOutputs),
                Just(Mutation::NoInputs),
                Just(Mutation::OutputsDataMismatch),
                Just(Mutation::UnknownTypeCode),
                Just(Mutation::UnresolvableLock),
                any::<u8>().prop_map(Mutation::Witness),
                Just(Mutation::ReverseOutputs),
                Just(Mutation::BadWitness),
                Just(Mutation::BadWitness),
            ]
        };
        let ev = prop_oneof![
            8 => (spec(), prop::option::weighted(0.5, mutation()), any::<bool>()).prop_map(|(spec, mutation, estimate_first)| Ev::Submit { spec, mutation, estimate_first }),
            2 => (spec(), prop::option::weighted(0.5, mutation())).prop_map(|(spec, mutation)| Ev::Estimate { spec, mutation }),
            2 => (10u8..80).prop_map(Ev::Burst),
            3 => any::<u16>().prop_map(Ev::GetTx),
            3 => Just(Ev::RelayConnect),
            1 => any::<u8>().prop_map(Ev::RelayDisconnect),
            3 => Just(Ev::RelayTick),
            2 => prop::collection::vec(any::<u16>(), 1..6).prop_map(Ev::GetRelayTxs),
            1 => Just(Ev::NewPeer),
            3 => (any::<u16>(), any::<bool>(), any::<bool>()).prop_map(|(which, bad, estimate)| Ev::ResubmitWithOtherWitness { which, bad, estimate }),
        ];
        (chain_params(60), net_params(), prop::collection::vec(reg_spec(), 1..4), prop::collection::vec(ev, 1..30))
            .prop_map(|(mut chain, mut net, mut initial, events)| {
                chain.len = chain.len.max(16);
                chain.density = chain.density.max(60);
                chain.cellbase_universe = true;
                net.max_outbound = 1;
                for r in initial.iter_mut() {
                    r.start_kind = 0;
                }
                // the always-success locks of the universe, so that there are spendable indexed cells
                initial.push(RegSpec { script: 0, start_kind: 0, pos: 0 });
                initial.push(RegSpec { script: 3, start_kind: 0, pos: 0 });
                initial.push(RegSpec { script: 4, start_kind: 0, pos: 0 });
                initial.push(RegSpec { script: 200, start_kind: 0, pos: 0 });
                Case { chain, net, initial, events }
            })
            .boxed()
    }

    fn run(case: &Case, obs: &mut Obs) -> Result<(), Failure> {
        let chain = {
            let p = &case.chain;
            let epochs = gen_epochs(p.seed, p.n_epochs.max(1) as usize, p.maxlen.max(1) as u64, 20);
            let txgen = TxGen { density: p.density as u64, max_txs: 3, typed: p.typed as u64, same_block: p.same_block as u64, cellbase_universe: p.cellbase_universe, gate: true };
            let mut chain = Chain::new(epochs, crate::lcv::sim::world::START_TIME, p.seed, ckb_pow::Pow::Eaglesong, txgen);
            chain.mine_n(p.len as u64);
            chain
        };
        let mut sim = Sim::new(chain, build_cfg(&case.net));
        crate::verif_hooks::set_rng_seed(Some(case.chain.seed ^ 0xc18));
        sim.set_scripts(0, &case.initial);
        sim.connect_quorum();
        let fin = sim.finish();
        crate::verif_hooks::set_rng_seed(None);
        if let Err(f) = fin {
            obs.label(format!("sync-failed:{}", f.signature));
            return Ok(());
        }
        let mut model = Model { pool: VecDeque::new(), accepted: vec![], rejected: vec![], evicted: vec![], announced: HashSet::new(), relay_open: BTreeSet::new(), salt: case.chain.seed & 0xffff };
        let mut seen_mut: BTreeMap<String, u32> = BTreeMap::new();
        let mut relay_peers_max = 0usize;
        for ev in &case.events {
            match ev {
                Ev::Submit { spec, mutation, estimate_first } => {
                    if let Some(b) = build(&sim, &mut model, spec, mutation) {
                        if let Some(m) = mutation {
                            *seen_mut.entry(format!("{:?}", m).split('(').next().unwrap_or("").to_string()).or_default() += 1;
                        }
                        submit(&mut sim, &mut model, &b, *estimate_first, false, obs)?;
                        check_get_transaction(&sim, &model, &b.tx.hash())?;
                    }
                }
                Ev::Estimate { spec, mutation } => {
                    if let Some(b) = build(&sim, &mut model, spec, mutation) {
                        submit(&mut sim, &mut model, &b, true, true, obs)?;
                    }
                }
                Ev::Burst(n) => {
                    for i in 0..*n {
                        let spec = TxSpec { inputs: vec![(i as u16).wrapping_mul(911)], n_out: 1, fee: i as u16, typed: false, data_len: i, chain_on_pending: false, salt: i as u16 };
                        if let Some(b) = build(&sim, &mut model, &spec, &None) {
                            submit(&mut sim, &mut model, &b, false, false, obs)?;
                        }
                    }
                }
                Ev::ResubmitWithOtherWitness { which, bad, estimate } => {
                    if model.pool.is_empty() {
                        continue;
                    }
                    // prefer members that spend a gate-locked cell (their verdict depends on the witness)
                    let chain = &sim.w.chains[sim.main];
                    let resolve = |tx: &TransactionView, model: &Model| -> Vec<Known> {
                        tx.input_pts_iter()
                            .filter_map(|op| {
                                chain.cells.get(&op).map(|ci| Known { op: op.clone(), output: ci.output.clone(), data: ci.data.clone(), at: Some((ci.block, ci.tx_index)) }).or_else(|| {
                                    model.pool.iter().find(|(h, _, _)| h == &op.tx_hash()).and_then(|(_, t, _)| t.outputs_with_data_iter().nth(Unpack::<u32>::unpack(&op.index()) as usize).map(|(o, d)| Known { op: op.clone(), output: o, data: d, at: None }))
                                })
                            })
                            .collect()
                    };
                    let gated: Vec<usize> = (0..model.pool.len()).filter(|i| has_gate_input(&resolve(&model.pool[*i].1, &model))).collect();
                    let i = if gated.is_empty() { idx(*which, model.pool.len()) } else { gated[idx(*which, gated.len())] };
                    let (_, tx, _) = model.pool[i].clone();
                    let inputs = resolve(&tx, &model);
                    if inputs.len() != tx.inputs().len() {
                        continue;
                    }
                    let w: Vec<u8> = if *bad { vec![1 + (*which as u8 % 200)] } else { vec![0, 0xaa, *which as u8] };
                    let tx2 = tx.as_advanced_builder().set_witnesses(vec![Bytes::from(w).pack()]).build();
                    let valid = !(*bad && has_gate_input(&inputs));
                    if has_gate_input(&inputs) {
                        obs.label(if *bad { "resubmit-pending-with-non-verifying-witness" } else { "resubmit-pending-with-other-good-witness" });
                    }
                    let b = Built { tx: tx2, inputs, valid, why: format!("pending transaction again with {} witness", if *bad { "a non-verifying" } else { "another good" }) };
                    if valid && !*estimate {
                        // accepted again: PendingTxs::push replaces the entry and forgets whom it was announced to (by design)
                        let h = b.tx.hash();
                        model.announced.retain(|(_, x)| x != &h);
                    }
                    let before = model.pool.iter().find(|(h, _, _)| h == &b.tx.hash()).cloned();
                    submit(&mut sim, &mut model, &b, *estimate, *estimate, obs)?;
                    if !valid {
                        // the rejected variant must not have replaced the pool member
                        model.rejected.retain(|h| h != &b.tx.hash());
                        if let Some((h, _, _)) = before {
                            check_get_transaction(&sim, &model, &h)?;
                        }
                    }
                }
                Ev::GetTx(k) => {
                    let hs = all_hashes(&model);
                    let h = hs[idx(*k, hs.len())].clone();
                    check_get_transaction(&sim, &model, &h)?;
                }
                Ev::NewPeer => {
                    let tip = sim.w.chains[sim.main].tip();
                    let main = sim.main;
                    sim.w.connect(main, tip, true);
                    sim.w.drain(30, |_| false);
                    let _ = take_relay_messages(&mut sim);
                }
                Ev::RelayConnect => {
                    let cands: Vec<PeerIndex> = sim.w.connected_peers().iter().map(|p| p.index).filter(|p| !model.relay_open.contains(&p.value())).collect();
                    if let Some(p) = cands.first() {
                        let nc = relay_ctx(&sim);
                        futures::executor::block_on(sim.w.cm().relay.connected(nc, *p, "2"));
                        model.relay_open.insert(p.value());
                        relay_peers_max = relay_peers_max.max(model.relay_open.len());
                        check_announcements(&mut sim, &mut model, "on relay connect")?;
                    }
                }
                Ev::RelayDisconnect(k) => {
                    let open: Vec<usize> = model.relay_open.iter().cloned().collect();
                    if !open.is_empty() {
                        let p = open[*k as usize % open.len()];
                        let nc = relay_ctx(&sim);
                        futures::executor::block_on(sim.w.cm().relay.disconnected(nc, PeerIndex::new(p)));
                        model.relay_open.remove(&p);
                    }
                }
                Ev::RelayTick => {
                    let nc = relay_ctx(&sim);
                    futures::executor::block_on(sim.w.cm().relay.notify(nc, 0));
                    if !model.pool.is_empty() && model.relay_open.is_empty() {
                        // the client asked tentacle to open the relay protocol to every peer: they connect
                        for p in sim.w.connected_peers() {
                            let nc = relay_ctx(&sim);
                            futures::executor::block_on(sim.w.cm().relay.connected(nc, p.index, "2"));
                            model.relay_open.insert(p.index.value());
                        }
                        relay_peers_max = relay_peers_max.max(model.relay_open.len());
                    }
                    check_announcements(&mut sim, &mut model, "on relay timer")?;
                }
                Ev::GetRelayTxs(sel) => {
                    let open: Vec<usize> = model.relay_open.iter().cloned().collect();
                    let peer = match open.first() {
                        Some(p) => PeerIndex::new(*p),
                        None => continue,
                    };
                    let hs = all_hashes(&model);
                    let asked: Vec<Byte32> = sel.iter().map(|k| hs[idx(*k, hs.len())].clone()).collect();
                    let msg = packed::RelayMessage::new_builder().set(packed::GetRelayTransactions::new_builder().tx_hashes(packed::Byte32Vec::new_builder().set(asked.clone()).build()).build()).build();
                    let _ = take_relay_messages(&mut sim);
                    sim.w.deliver(SupportProtocols::RelayV2, peer, P2pBytes::from(msg.as_slice().to_vec()));
                    let mut served: Vec<(Byte32, u64)> = vec![];
                    for (_, m) in take_relay_messages(&mut sim) {
                        if let packed::RelayMessageUnion::RelayTransactions(r) = m.to_enum() {
                            for t in r.transactions().into_iter() {
                                served.push((t.transaction().calc_tx_hash(), t.cycles().unpack()));
                            }
                        }
                    }
                    let mut want: Vec<(Byte32, u64)> = vec![];
                    for h in &asked {
                        if let Some((_, _, c)) = model.pool.iter().find(|(x, _, _)| x == h) {
                            want.push((h.clone(), *c));
                        }
                    }
                    if served != want {
                        let extra = served.iter().find(|s| !want.contains(s));
                        let kind = match extra {
                            Some((h, _)) if model.rejected.contains(h) => "served-a-rejected-transaction",
                            Some((h, _)) if model.evicted.contains(h) => "served-an-evicted-transaction",
                            Some(_) => "served-with-wrong-cycles-or-unknown",
                            None => "did-not-serve-a-pool-member",
                        };
                        return Err(Failure::new(format!("relay/{}", kind), format!("asked {} served {} want {}", asked.len(), served.len(), want.len())));
                    }
                }
            }
        }
        // the pool as a whole
        for (h, _, _) in model.pool.iter() {
            check_get_transaction(&sim, &model, h)?;
        }
        for h in model.evicted.iter().chain(model.rejected.iter()) {
            check_get_transaction(&sim, &model, h)?;
        }
        obs.note("accepted", json!(model.accepted.len()));
        let rejected_mut = !model.rejected.is_empty();
        if rejected_mut && (!model.evicted.is_empty() || relay_peers_max >= 2 || !model.announced.is_empty()) {
            use std::hash::{Hash, Hasher};
            let mut h = std::collections::hash_map::DefaultHasher::new();
            format!("{:?}", case.events).hash(&mut h);
            obs.nontrivial((seen_mut.keys().cloned().collect::<Vec<_>>(), !model.evicted.is_empty(), relay_peers_max, h.finish()));
        }
        Ok(())
    }

    fn max_shrink_iters() -> u32 {
        300
    }
}
