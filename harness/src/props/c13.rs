//! C13 — cell and transaction queries are exact views of the index: pagination, order, filters,
//! grouping, capacity. Index contents are produced by the real `filter_block` over generated
//! blocks; the oracle relates query answers to each other and to the chain's own cell list.

use std::collections::BTreeSet;
use std::sync::Arc;

use ckb_jsonrpc_types::JsonBytes;
use ckb_pow::Pow;
use ckb_types::{bytes::Bytes, packed::Script, prelude::*, U256};
use proptest::prelude::*;
use serde::{Deserialize, Serialize};
use serde_json::{json, Value};

use crate::lcv::oracle::index::raw_script;
use crate::lcv::pbt::*;
use crate::lcv::sim::chain::{gen_epochs, universe_lock, universe_type, Chain, TxGen, N_LOCKS, N_TYPES};
use crate::lcv::sim::world::START_TIME;
use crate::protocols::{Peers, PendingTxs};
use crate::service::{BlockFilterRpc, BlockFilterRpcImpl, Order, ScriptType as RpcScriptType, SearchKey, SearchKeyFilter};
use crate::storage::{ScriptStatus, ScriptType, Storage, StorageWithChainData};

#[derive(Debug, Clone, Serialize, Deserialize)]
pub struct Range {
    /// 0 none, 1 [a,b), 2 empty [a,a), 3 inverted, 4 [0, max], 5 [a, max]
    pub kind: u8,
    pub a: u16,
    pub b: u16,
}

#[derive(Debug, Clone, Serialize, Deserialize)]
pub struct Query {
    pub txs: bool,
    /// universe script index (0..6 locks when searching locks, 0..2 types when searching types), 250 = non-existent
    pub key: u8,
    /// keep only the first `cut` bytes of the args (255 = all)
    pub cut: u8,
    pub by_type: bool,
    pub desc: bool,
    pub limit: u8,
    pub grouped: bool,
    pub with_data: bool,
    /// filter.script: None or (index into the other kind's universe, cut)
    pub fscript: Option<(u8, u8)>,
    pub script_len: Range,
    pub data_len: Range,
    pub capacity: Range,
    pub block: Range,
}

#[derive(Debug, Clone, Serialize, Deserialize)]
pub struct Case {
    pub seed: u64,
    pub len: u8,
    pub typed: u8,
    pub same_block: u8,
    pub queries: Vec<Query>,
}

pub struct C13;

const LIMITS: [u32; 6] = [1, 2, 3, 7, 50, 1_000_000];

fn range_strategy() -> impl Strategy<Value = Range> {
    (prop_oneof![6 => Just(0u8), 4 => Just(1u8), 1 => Just(2u8), 1 => Just(3u8), 1 => Just(4u8), 1 => Just(5u8)], any::<u16>(), any::<u16>()).prop_map(|(kind, a, b)| Range { kind, a, b })
}

fn query_strategy() -> impl Strategy<Value = Query> {
    (
        any::<bool>(),
        prop_oneof![9 => 0u8..6, 1 => Just(250u8)],
        prop_oneof![3 => Just(255u8), 2 => 0u8..4],
        prop::bool::weighted(0.3),
        any::<bool>(),
        0u8..6,
        prop::bool::weighted(0.4),
        any::<bool>(),
        prop::option::weighted(0.3, (0u8..6, prop_oneof![Just(255u8), 0u8..3])),
        (range_strategy(), range_strategy(), range_strategy(), range_strategy()),
    )
        .prop_map(|(txs, key, cut, by_type, desc, limit, grouped, with_data, fscript, (script_len, data_len, capacity, block))| Query {
            txs,
            key,
            cut,
            by_type,
            desc,
            limit,
            grouped,
            with_data,
            fscript,
            script_len,
            data_len,
            capacity,
            block,
        })
}

fn cut_script(s: Script, cut: u8) -> Script {
    if cut == 255 {
        return s;
    }
    let args = s.args().raw_data();
    let n = (cut as usize).min(args.len());
    s.as_builder().args(Bytes::from(args[..n].to_vec()).pack()).build()
}

fn key_script(q: &Query) -> Script {
    let base = if q.key == 250 {
        universe_lock(0).as_builder().code_hash([9u8; 32].pack()).build()
    } else if q.by_type {
        universe_type(q.key as usize % N_TYPES)
    } else {
        universe_lock(q.key as usize % N_LOCKS)
    };
    cut_script(base, q.cut)
}

fn filter_script(q: &Query) -> Option<Script> {
    q.fscript.map(|(i, cut)| {
        // the filter script is of the *other* kind
        let base = if q.by_type { universe_lock(i as usize % N_LOCKS) } else { universe_type(i as usize % N_TYPES) };
        cut_script(base, cut)
    })
}

/// Resolves a range spec against a scale (max interesting value) into [lo, hi] raw u64 values.
fn resolve(r: &Range, scale: u64) -> Option<[u64; 2]> {
    let a = (r.a as u64 * (scale + 1)) >> 16;
    let b = (r.b as u64 * (scale + 1)) >> 16;
    match r.kind {
        0 => None,
        1 => Some([a.min(b), a.max(b) + 1]),
        2 => Some([a, a]),
        3 => Some([a.max(b) + 1, a.min(b)]),
        4 => Some([0, u64::MAX]),
        _ => Some([a, u64::MAX]),
    }
}

fn hexu(v: &Value) -> u64 {
    v.as_str().and_then(|s| u64::from_str_radix(s.trim_start_matches("0x"), 16).ok()).unwrap_or(u64::MAX)
}

fn json_to_raw_script(v: &Value) -> Option<Vec<u8>> {
    if v.is_null() {
        return None;
    }
    let js: ckb_jsonrpc_types::Script = serde_json::from_value(v.clone()).ok()?;
    let s: Script = js.into();
    Some(raw_script(&s))
}

struct Ctx {
    rpc: BlockFilterRpcImpl,
    tip: u64,
    max_cap: u64,
}

fn search_key(q: &Query, ctx: &Ctx, with_filter: bool, grouped: bool) -> SearchKey {
    let filter = if with_filter {
        let f = SearchKeyFilter {
            script: filter_script(q).map(Into::into),
            script_len_range: resolve(&q.script_len, 40).map(|r| [r[0].into(), r[1].into()]),
            output_data_len_range: if q.txs { None } else { resolve(&q.data_len, 45).map(|r| [r[0].into(), r[1].into()]) },
            output_capacity_range: if q.txs { None } else { resolve(&q.capacity, ctx.max_cap).map(|r| [r[0].into(), r[1].into()]) },
            block_range: resolve(&q.block, ctx.tip + 2).map(|r| [r[0].into(), r[1].into()]),
        };
        Some(f)
    } else {
        None
    };
    SearchKey {
        script: key_script(q).into(),
        script_type: if q.by_type { RpcScriptType::Type } else { RpcScriptType::Lock },
        filter,
        with_data: Some(q.with_data),
        group_by_transaction: Some(grouped),
    }
}

/// Follows last_cursor until an empty page. Returns all objects (JSON) and the page sizes.
fn all_pages(ctx: &Ctx, q: &Query, with_filter: bool, desc: bool, limit: u32, grouped: bool) -> Result<(Vec<Value>, Vec<usize>), Failure> {
    let mut out = vec![];
    let mut pages = vec![];
    let mut cursor: Option<JsonBytes> = None;
    for _ in 0..200_000 {
        let order = if desc { Order::Desc } else { Order::Asc };
        let key = search_key(q, ctx, with_filter, grouped);
        let (objs, last): (Vec<Value>, JsonBytes) = if q.txs {
            let p = ctx.rpc.get_transactions(key, order, limit.into(), cursor.clone()).map_err(|e| Failure::new("rpc-error/get_transactions", format!("{:?}", e)))?;
            (p.objects.iter().map(|o| serde_json::to_value(o).unwrap()).collect(), p.last_cursor)
        } else {
            let p = ctx.rpc.get_cells(key, order, limit.into(), cursor.clone()).map_err(|e| Failure::new("rpc-error/get_cells", format!("{:?}", e)))?;
            (p.objects.iter().map(|o| serde_json::to_value(o).unwrap()).collect(), p.last_cursor)
        };
        if objs.is_empty() {
            return Ok((out, pages));
        }
        if objs.len() > limit as usize {
            return Err(Failure::new("page-larger-than-limit", format!("{} > {}", objs.len(), limit)));
        }
        pages.push(objs.len());
        out.extend(objs);
        cursor = Some(last);
    }
    Err(Failure::new("pagination-does-not-terminate", String::new()))
}

/// Sort key of a returned cell / ungrouped tx entry in index order.
fn order_key(q: &Query, o: &Value) -> (Vec<u8>, u64, u64, u64, u8) {
    if q.txs {
        // the script is not part of the answer: order within (block, tx_index, io_index, io_type) only when one script matches
        (vec![], hexu(&o["block_number"]), hexu(&o["tx_index"]), hexu(&o["io_index"]), if o["io_type"] == "input" { 0 } else { 1 })
    } else {
        let s = if q.by_type { json_to_raw_script(&o["output"]["type"]) } else { json_to_raw_script(&o["output"]["lock"]) };
        (s.unwrap_or_default(), hexu(&o["block_number"]), hexu(&o["tx_index"]), hexu(&o["out_point"]["index"]), 0)
    }
}

fn ident(q: &Query, o: &Value) -> String {
    if q.txs {
        format!("{}:{}:{}:{}:{}", o["transaction"]["hash"], o["block_number"], o["tx_index"], o["io_index"], o["io_type"])
    } else {
        format!("{}:{}", o["out_point"]["tx_hash"], o["out_point"]["index"])
    }
}

impl Property for C13 {
    type Case = Case;
    const ID: &'static str = "C13";

    fn cases(tier: Tier) -> u32 {
        match tier {
            Tier::Quick => 9000,
            Tier::Thorough => 80_000,
        }
    }

    fn rule() -> &'static str {
        "cases: an index built by the real filter_block over a generated chain (all 8 prefix-sharing universe scripts registered, typed and untyped cells, same-block chains) x up to 12 queries \
         (get_cells / get_transactions, exact / args-prefix / empty-args / non-existent key, lock or type, both orders, limits {1,2,3,7,50,10^6}, filters script / script_len / data_len / capacity / block_range incl. empty, inverted and [0,2^64-1], grouping). \
         oracles: pagination (no duplicates, monotone keys, page size, union independent of limit), desc = reverse asc, filter = predicate over the unfiltered answer, grouped = ungrouped grouped by tx, capacity = sum of cells + stored tip, unfiltered = chain truth for every script sharing the prefix. \
         non-trivial: a query whose answer spans >= 2 pages and >= 2 distinct scripts; distinct by (kind, key, cut, type, order, limit, grouped, filter shape)"
    }

    fn strategy(tier: Tier) -> BoxedStrategy<Case> {
        let maxlen = match tier {
            Tier::Quick => 40u8,
            Tier::Thorough => 160u8,
        };
        (any::<u64>(), 3u8..maxlen, 0u8..70, 0u8..60, prop::collection::vec(query_strategy(), 1..12))
            .prop_map(|(seed, len, typed, same_block, queries)| Case { seed, len, typed, same_block, queries })
            .boxed()
    }

    fn run(case: &Case, obs: &mut Obs) -> Result<(), Failure> {
        // index contents
        let epochs = gen_epochs(case.seed, 3, 50, 0);
        let txgen = TxGen { density: 90, max_txs: 4, typed: case.typed as u64, same_block: case.same_block as u64, cellbase_universe: true, gate: false };
        let mut chain = Chain::new(epochs, START_TIME, case.seed, Pow::Dummy, txgen);
        chain.mine_n(case.len as u64);
        let dir = tempfile::Builder::new().prefix("lcv13").tempdir_in(crate::lcv::tmp_root()).unwrap();
        let storage = Storage::new(dir.path());
        storage.init_genesis_block(chain.blocks[0].data());
        let mut scripts = vec![];
        for i in 0..N_LOCKS {
            scripts.push(ScriptStatus { script: universe_lock(i), script_type: ScriptType::Lock, block_number: 0 });
        }
        for i in 0..N_TYPES {
            scripts.push(ScriptStatus { script: universe_type(i), script_type: ScriptType::Type, block_number: 0 });
        }
        storage.update_filter_scripts(scripts, Default::default());
        for b in &chain.blocks[1..] {
            storage.filter_block(b.data());
        }
        let tipn = chain.tip();
        storage.update_last_state(&chain.total_diff[tipn as usize], &chain.blocks[tipn as usize].header().data(), &[]);
        let peers = Arc::new(Peers::new(1, 2000, storage.get_last_check_point()));
        let swc = StorageWithChainData::new(storage.clone(), peers, Arc::new(std::sync::RwLock::new(PendingTxs::default())));
        let max_cap = chain.cells.values().map(|c| Unpack::<ckb_types::core::Capacity>::unpack(&c.output.capacity()).as_u64()).max().unwrap_or(1);
        let ctx = Ctx { rpc: BlockFilterRpcImpl { swc }, tip: tipn, max_cap };

        for q in &case.queries {
            let limit = LIMITS[q.limit as usize % LIMITS.len()];
            let kind = if q.txs { "txs" } else { "cells" };
            let describe = |extra: &str| format!("{} query {:?} :: {}", kind, q, extra);
            // (1) pagination of the unfiltered, ungrouped answer
            let (base, pages) = all_pages(&ctx, q, false, false, limit, false)?;
            let (big, _) = all_pages(&ctx, q, false, false, 1_000_000, false)?;
            if base != big {
                return Err(Failure::new(format!("{}/union-depends-on-limit", kind), describe(&format!("limit {}: {} entries, limit 10^6: {} entries", limit, base.len(), big.len()))));
            }
            let mut seen = BTreeSet::new();
            for o in &base {
                if !seen.insert(ident(q, o)) {
                    return Err(Failure::new(format!("{}/entry-returned-twice", kind), describe(&ident(q, o))));
                }
            }
            if !q.txs {
                for w in base.windows(2) {
                    if order_key(q, &w[0]) >= order_key(q, &w[1]) {
                        return Err(Failure::new("cells/keys-not-strictly-increasing", describe("")));
                    }
                }
            }
            // (2) desc = reverse(asc)
            let (desc, _) = all_pages(&ctx, q, false, true, limit, false)?;
            let mut rev = desc.clone();
            rev.reverse();
            if rev != base {
                return Err(Failure::new(format!("{}/desc-is-not-reverse-of-asc", kind), describe(&format!("asc {} desc {}", base.len(), desc.len()))));
            }
            // (6) unfiltered answer = chain truth for every script sharing the searched prefix
            let key_raw = raw_script(&key_script(q));
            if !q.txs {
                let mut want: BTreeSet<String> = BTreeSet::new();
                for (op, ci) in chain.cells.iter() {
                    if ci.spent_at.is_some() {
                        continue;
                    }
                    let s = if q.by_type { ci.output.type_().to_opt() } else { Some(ci.output.lock()) };
                    if let Some(s) = s {
                        // only registered scripts are indexed
                        let registered = if q.by_type { (0..N_TYPES).any(|i| universe_type(i) == s) } else { (0..N_LOCKS).any(|i| universe_lock(i) == s) };
                        if registered && raw_script(&s).starts_with(&key_raw) {
                            want.insert(format!("\"{:#x}\":\"{:#x}\"", op.tx_hash(), Unpack::<u32>::unpack(&op.index())));
                        }
                    }
                }
                let got: BTreeSet<String> = base.iter().map(|o| ident(q, o)).collect();
                if want != got {
                    let missing: Vec<_> = want.difference(&got).take(2).cloned().collect();
                    let extra: Vec<_> = got.difference(&want).take(2).cloned().collect();
                    return Err(Failure::new("cells/unfiltered-differs-from-chain", describe(&format!("want {} got {} missing {:?} extra {:?}", want.len(), got.len(), missing, extra))));
                }
            }
            // (3) filters
            let (filtered, _) = all_pages(&ctx, q, true, q.desc, limit, false)?;
            let fs_raw = filter_script(q).map(|s| raw_script(&s));
            let fs_exact = filter_script(q);
            let slr = resolve(&q.script_len, 40);
            let dlr = if q.txs { None } else { resolve(&q.data_len, 45) };
            let cpr = if q.txs { None } else { resolve(&q.capacity, max_cap) };
            let blr = resolve(&q.block, tipn + 2);
            // Some(true) must be kept, Some(false) must be dropped, None = don't care (S2)
            let pred = |o: &Value| -> Option<bool> {
                let mut dont_care = false;
                let block = hexu(&o["block_number"]);
                if let Some([r0, r1]) = blr {
                    if block < r0 || block >= r1 {
                        return Some(false);
                    }
                }
                if q.txs {
                    if let Some(fs) = &fs_exact {
                        // the io cell's other-kind script must be exactly the filter script (documented for registered scripts, S3)
                        let tx = &o["transaction"];
                        let io = hexu(&o["io_index"]) as usize;
                        let cell_out: Option<ckb_types::packed::CellOutput> = if o["io_type"] == "input" {
                            let prev_tx = tx["inputs"][io]["previous_output"]["tx_hash"].as_str().unwrap_or("").to_string();
                            let prev_idx = hexu(&tx["inputs"][io]["previous_output"]["index"]) as u32;
                            chain.cells.iter().find(|(op, _)| format!("{:#x}", op.tx_hash()) == prev_tx && Unpack::<u32>::unpack(&op.index()) == prev_idx).map(|(_, ci)| ci.output.clone())
                        } else {
                            let js: Option<ckb_jsonrpc_types::CellOutput> = serde_json::from_value(tx["outputs"][io].clone()).ok();
                            js.map(Into::into)
                        };
                        let other = cell_out.and_then(|c| if q.by_type { Some(c.lock()) } else { c.type_().to_opt() });
                        if other.as_ref() != Some(fs) {
                            return Some(false);
                        }
                    }
                    return Some(true);
                }
                let other_raw = if q.by_type { json_to_raw_script(&o["output"]["lock"]) } else { json_to_raw_script(&o["output"]["type"]) };
                if let Some(fr) = &fs_raw {
                    match &other_raw {
                        Some(r) if r.starts_with(fr) => {}
                        _ => return Some(false),
                    }
                }
                if let Some([r0, r1]) = slr {
                    match &other_raw {
                        Some(r) => {
                            let l = r.len() as u64;
                            if l < r0 || l > r1 {
                                return Some(false);
                            }
                            if l == r1 {
                                dont_care = true;
                            }
                        }
                        None => {
                            // no type script: documented as "not matching", implemented as length 0 (S2)
                            if r0 == 0 {
                                dont_care = true;
                            } else {
                                return Some(false);
                            }
                        }
                    }
                }
                if let Some([r0, r1]) = dlr {
                    // output_data is null when with_data = false: take the length from the chain
                    let txh = o["out_point"]["tx_hash"].as_str().unwrap_or("").to_string();
                    let idx = hexu(&o["out_point"]["index"]) as u32;
                    let l = chain.cells.iter().find(|(op, _)| format!("{:#x}", op.tx_hash()) == txh && Unpack::<u32>::unpack(&op.index()) == idx).map(|(_, ci)| ci.data.len() as u64).unwrap_or(0);
                    if l < r0 || l >= r1 {
                        return Some(false);
                    }
                }
                if let Some([r0, r1]) = cpr {
                    let c = hexu(&o["output"]["capacity"]);
                    if c < r0 || c >= r1 {
                        return Some(false);
                    }
                }
                if dont_care {
                    None
                } else {
                    Some(true)
                }
            };
            let ordered_base: Vec<&Value> = if q.desc { desc.iter().collect() } else { base.iter().collect() };
            let mut fi = 0usize;
            for o in ordered_base {
                let present = fi < filtered.len() && ident(q, &filtered[fi]) == ident(q, o);
                match pred(o) {
                    Some(true) => {
                        if !present {
                            return Err(Failure::new(format!("{}/filter-drops-a-matching-entry", kind), describe(&format!("entry {}", o))));
                        }
                        fi += 1;
                    }
                    Some(false) => {
                        if present {
                            return Err(Failure::new(format!("{}/filter-keeps-a-non-matching-entry", kind), describe(&format!("entry {}", o))));
                        }
                    }
                    None => {
                        if present {
                            fi += 1;
                        }
                    }
                }
            }
            if fi != filtered.len() {
                return Err(Failure::new(format!("{}/filtered-answer-has-entries-outside-the-unfiltered-one", kind), describe(&format!("{} of {}", fi, filtered.len()))));
            }
            // with_data only toggles the data field
            if !q.txs {
                for o in &base {
                    if q.with_data == o["output_data"].is_null() {
                        return Err(Failure::new("cells/with_data-not-respected", describe("")));
                    }
                }
            }
            // (4) grouping
            if q.txs && q.grouped {
                let (groups, _) = all_pages(&ctx, q, true, q.desc, limit, true)?;
                let mut flat: Vec<String> = vec![];
                let mut last_hash: Option<String> = None;
                for g in &groups {
                    let h = g["transaction"]["hash"].as_str().unwrap_or("").to_string();
                    if last_hash.as_ref() == Some(&h) {
                        // legitimate only across a page boundary when a filtered-out entry of ANOTHER transaction lies between
                        // the two runs in the unfiltered sequence; adjacent runs must have been merged into one group
                        let first_cell = g["cells"].as_array().and_then(|c| c.first().cloned()).unwrap_or(Value::Null);
                        let first_id = format!("{}:{}:{}:{}:{}", g["transaction"]["hash"], g["block_number"], g["tx_index"], first_cell[1], first_cell[0]);
                        let unf: Vec<String> = (if q.desc { desc.iter().collect::<Vec<_>>() } else { base.iter().collect::<Vec<_>>() }).iter().map(|o| ident(q, o)).collect();
                        let pos = unf.iter().position(|x| x == &first_id);
                        let prev_same = pos.map(|p| p > 0 && unf[p - 1].starts_with(&format!("{}:", g["transaction"]["hash"]))).unwrap_or(false);
                        // (judged for exact-script searches only: with an args-prefix key the entries of one transaction are
                        // not contiguous in key order and the same transaction legitimately re-appears per script)
                        // "exact" also means that no other script of the universe extends the search key (lock `aa` is a
                        // prefix of `aa01` and `aa0102`, the empty args of everything, type `77` of `7701`)
                        let key_raw = crate::lcv::oracle::index::raw_script(&key_script(q));
                        let extended_by_another = if q.by_type {
                            (0..N_TYPES).any(|i| {
                                let r = crate::lcv::oracle::index::raw_script(&universe_type(i));
                                r.len() > key_raw.len() && r.starts_with(&key_raw)
                            })
                        } else {
                            (0..N_LOCKS).any(|i| {
                                let r = crate::lcv::oracle::index::raw_script(&universe_lock(i));
                                r.len() > key_raw.len() && r.starts_with(&key_raw)
                            })
                        };
                        if prev_same && q.cut == 255 && q.key != 250 && !extended_by_another {
                            return Err(Failure::new("txs/one-transaction-split-into-two-adjacent-groups", describe(&h)));
                        }
                        obs.label("grouped:same-tx-split-across-pages(by a filtered-out entry)");
                    }
                    last_hash = Some(h.clone());
                    for c in g["cells"].as_array().cloned().unwrap_or_default() {
                        flat.push(format!("{}:{}:{}:{}:{}", g["transaction"]["hash"], g["block_number"], g["tx_index"], c[1], c[0]));
                    }
                }
                let want: Vec<String> = filtered.iter().map(|o| ident(q, o)).collect();
                if flat != want {
                    return Err(Failure::new("txs/grouped-differs-from-ungrouped", describe(&format!("grouped {} entries in {} groups, ungrouped {}", flat.len(), groups.len(), want.len()))));
                }
            }
            // (5) capacity
            if !q.txs {
                let cap = ctx.rpc.get_cells_capacity(search_key(q, &ctx, true, false)).map_err(|e| Failure::new("rpc-error/get_cells_capacity", format!("{:?}", e)))?;
                let cv = serde_json::to_value(&cap).unwrap();
                let sum: U256 = filtered.iter().fold(U256::zero(), |a, o| a + U256::from(hexu(&o["output"]["capacity"])));
                if U256::from(hexu(&cv["capacity"])) != sum {
                    return Err(Failure::new("cells/capacity-differs-from-sum-of-cells", describe(&format!("capacity {} sum {:#x}", cv["capacity"], sum))));
                }
                if hexu(&cv["block_number"]) != tipn || cv["block_hash"].as_str().map(|s| s.to_string()) != Some(format!("{:#x}", chain.blocks[tipn as usize].hash())) {
                    return Err(Failure::new("cells/capacity-tip-differs-from-stored-tip", describe(&cv.to_string())));
                }
            }
            // classification
            obs.label(format!("{}:{}", kind, if base.is_empty() { "empty" } else if pages.len() >= 2 { "multi-page" } else { "one-page" }));
            let scripts: BTreeSet<Vec<u8>> = if q.txs { BTreeSet::new() } else { base.iter().map(|o| order_key(q, o).0).collect() };
            let distinct_scripts = if q.txs {
                // count universe scripts sharing the prefix that have history
                (0..N_LOCKS).filter(|i| !q.by_type && raw_script(&universe_lock(*i)).starts_with(&key_raw)).count() + (0..N_TYPES).filter(|i| q.by_type && raw_script(&universe_type(*i)).starts_with(&key_raw)).count()
            } else {
                scripts.len()
            };
            if pages.len() >= 2 && distinct_scripts >= 2 {
                obs.nontrivial((q.txs, q.key, q.cut, q.by_type, q.desc, q.limit, q.grouped, q.fscript.is_some(), q.script_len.kind, q.data_len.kind, q.capacity.kind, q.block.kind));
            }
        }
        obs.note("blocks", json!(case.len));
        Ok(())
    }
}
