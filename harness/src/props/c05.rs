//! C05 — honest peers are never rejected; the client converges to the heaviest announced tip.
//! Whole-sync histories against the synthetic honest server (variable difficulty, many epochs,
//! growth, several peers at different heights, restarts, arbitrary delivery orders, H3-seeded samples).

use ckb_network::{PeerIndex, SupportProtocols};
use ckb_pow::Pow;
use ckb_types::{packed, prelude::*};
use proptest::prelude::*;
use serde::{Deserialize, Serialize};
use serde_json::json;

use crate::lcv::oracle::index::{compare, Reg, SType};
use crate::lcv::pbt::*;
use crate::lcv::sim::chain::{gen_epochs, universe_lock, Chain, TxGen};
use crate::lcv::sim::world::{Cfg, World, START_TIME};

#[derive(Debug, Clone, Serialize, Deserialize)]
pub enum Step {
    /// deliver (answer honestly) the i-th in-flight request
    Deliver(u16),
    /// answer everything in flight
    Pump,
    Tick(u8),
    Advance(u16),
    Grow(u8),
    Restart,
    /// a new peer at `tip - below` connects
    Connect(u8),
    /// i-th connected peer goes away
    Disconnect(u16),
    /// the i-th connected peer (possibly lagging) catches up by `n` blocks and announces it
    CatchUp(u16, u8),
}

#[derive(Debug, Clone, Serialize, Deserialize)]
pub struct Case {
    pub seed: u64,
    pub n_epochs: u8,
    pub maxlen: u8,
    pub sat: u8,
    pub len: u16,
    pub last_n: u8,
    pub interval: u8,
    pub max_outbound: u8,
    pub filter_batch: u8,
    pub mmr_epoch: u8,
    pub peers_below: Vec<u8>,
    pub scripts: u8,
    pub steps: Vec<Step>,
}

pub struct C05;

pub const LAST_NS: [u64; 6] = [1, 2, 3, 5, 10, 100];

fn step_strategy() -> impl Strategy<Value = Step> {
    prop_oneof![
        6 => any::<u16>().prop_map(Step::Deliver),
        3 => Just(Step::Pump),
        3 => (0u8..6).prop_map(Step::Tick),
        1 => (1u16..3000).prop_map(Step::Advance),
        3 => (1u8..20).prop_map(Step::Grow),
        1 => Just(Step::Restart),
        1 => (0u8..12).prop_map(Step::Connect),
        1 => any::<u16>().prop_map(Step::Disconnect),
        2 => (any::<u16>(), 1u8..12).prop_map(|(a, b)| Step::CatchUp(a, b)),
    ]
}

pub fn legit_timeout_disconnects(w: &World) -> Result<(), String> {
    for (p, reason) in &w.disconnect_log {
        if !reason.contains("timeout") {
            return Err(format!("peer {} disconnected: {}", p, reason));
        }
    }
    Ok(())
}

impl Property for C05 {
    type Case = Case;
    const ID: &'static str = "C05";

    fn cases(tier: Tier) -> u32 {
        match tier {
            Tier::Quick => 1400,
            Tier::Thorough => 12_000,
        }
    }

    fn rule() -> &'static str {
        "cases: (epoch layout with per-epoch difficulty within tau, chain length, last_n, check point interval, quorum, filter batch, MMR activation epoch, peers at different heights, \
         0-2 registered scripts) x a generated schedule (deliver i-th request, pump, ticks, clock, growth, restart, connect, disconnect, catch-up) then a fair drain. \
         non-trivial: >=1 sampled GetLastStateProof was answered and the chain spans >=2 epochs of different difficulty; distinct by (last_n, #peers, #epochs bucket, restart?, growth?, length bucket, schedule hash)"
    }

    fn strategy(tier: Tier) -> BoxedStrategy<Case> {
        let maxlen = match tier {
            Tier::Quick => 320u16,
            Tier::Thorough => 800u16,
        };
        (
            any::<u64>(),
            (1u8..40, 1u8..40, 0u8..60),
            2u16..maxlen,
            0u8..6,
            0u8..3,
            1u8..4,
            1u8..12,
            0u8..4,
            prop::collection::vec(0u8..30, 1..4),
            0u8..3,
            prop::collection::vec(step_strategy(), 0..40),
        )
            .prop_map(|(seed, (n_epochs, maxlen, sat), len, last_n, interval, max_outbound, filter_batch, mmr_epoch, peers_below, scripts, steps)| Case {
                seed,
                n_epochs,
                maxlen,
                sat,
                // short chains matter (boundary cases) but most of the budget goes to multi-epoch chains
                len: if seed % 5 == 0 { 1 + len % 12 } else { len },
                last_n,
                interval,
                max_outbound,
                filter_batch,
                mmr_epoch,
                peers_below,
                scripts,
                steps,
            })
            .boxed()
    }

    fn run(case: &Case, obs: &mut Obs) -> Result<(), Failure> {
        let epochs = gen_epochs(case.seed, case.n_epochs.max(1) as usize, case.maxlen.max(1) as u64, case.sat as u64);
        let mut chain = Chain::new(epochs.clone(), START_TIME, case.seed, Pow::Eaglesong, TxGen { density: 50, ..TxGen::default() });
        // the chain itself has an activation boundary: no chain root commitment up to the first block of that epoch
        chain.mmr_activated_epoch = case.mmr_epoch as u64;
        chain.mine_n(case.len as u64);
        let last_n = LAST_NS[case.last_n as usize % LAST_NS.len()];
        let interval = [4u64, 8, 16][case.interval as usize % 3];
        let cfg = Cfg {
            last_n,
            max_outbound: case.max_outbound.max(1) as u32,
            interval,
            filter_batch: case.filter_batch.max(1) as usize,
            mmr_activated_epoch: case.mmr_epoch as u64,
            ..Cfg::default()
        };
        let mut w = World::new(vec![chain], cfg);
        crate::verif_hooks::set_rng_seed(Some(case.seed ^ 0xf17));
        let regs: Vec<Reg> = (0..case.scripts as usize).map(|i| Reg { script: universe_lock(i), stype: SType::Lock, start: 0 }).collect();
        if !regs.is_empty() {
            w.storage().update_filter_scripts(regs.iter().map(|r| r.storage_status()).collect(), Default::default());
        }
        // peers at different heights; at least the quorum follows the tip so that filter sync can proceed
        let q = ((case.max_outbound.max(1) as usize) + 1) / 2;
        let tip = w.chains[0].tip();
        let n_peers = case.peers_below.len().max(q).min(case.max_outbound.max(1) as usize).max(1);
        for i in 0..n_peers {
            let below = if i < q { 0 } else { *case.peers_below.get(i).unwrap_or(&0) as u64 };
            w.connect(0, tip.saturating_sub(below), below == 0);
        }
        let mut restarts = 0;
        let mut growth = 0u64;
        let check = |w: &World| -> Result<(), Failure> { classify_bans(w) };
        // all peers are honest and on one branch: the heaviest tip the client has adopted so far is never given up for a lighter one
        let mut best_td = w.storage().get_last_state().0;
        for step in &case.steps {
            match step {
                Step::Deliver(i) => {
                    let n = w.outbox_len();
                    if n > 0 {
                        let msg = w.take_request(idx(*i, n)).unwrap();
                        let peer = msg.1;
                        for (proto, bytes) in w.honest_replies(&msg) {
                            w.deliver(proto, peer, bytes);
                        }
                    }
                }
                Step::Pump => {
                    w.pump();
                }
                Step::Tick(t) => {
                    if *t < 3 {
                        w.tick(SupportProtocols::LightClient, *t as u64)
                    } else {
                        w.tick(SupportProtocols::Filter, (*t - 3) as u64)
                    }
                }
                Step::Advance(ms) => w.advance(*ms as u64),
                Step::Grow(n) => {
                    growth += *n as u64;
                    w.grow(0, *n as u64);
                }
                Step::Restart => {
                    restarts += 1;
                    w.restart();
                    let tip = w.chains[0].tip();
                    for _ in 0..q {
                        w.connect(0, tip, true);
                    }
                }
                Step::Connect(below) => {
                    if w.connected_peers().len() < case.max_outbound.max(1) as usize {
                        let tip = w.chains[0].tip();
                        w.connect(0, tip.saturating_sub(*below as u64), *below == 0);
                    }
                }
                Step::Disconnect(i) => {
                    let cp = w.connected_peers();
                    // keep the quorum of tip-following peers alive
                    let followers = cp.iter().filter(|p| p.follow).count();
                    if !cp.is_empty() {
                        let p = &cp[idx(*i, cp.len())];
                        if !(p.follow && followers <= q) {
                            w.disconnect(p.index);
                        }
                    }
                }
                Step::CatchUp(i, n) => {
                    let cp = w.connected_peers();
                    if !cp.is_empty() {
                        let p = cp[idx(*i, cp.len())].clone();
                        let tip = w.chains[0].tip();
                        if p.tip < tip {
                            w.switch_peer(p.index, 0, (p.tip + *n as u64).min(tip));
                        }
                    }
                }
            }
            {
                let (td, tip) = w.storage().get_last_state();
                if td < best_td {
                    let n: u64 = tip.raw().number().unpack();
                    return Err(Failure::new("tip-moved-back-to-a-lighter-header", format!("after step {:?}: stored tip #{} total difficulty {:#x}, was {:#x} before (all peers honest, one branch)", step, n, td, best_td)));
                }
                best_td = td;
            }
            if let Err(f) = check(&w) {
                // a known finding ends the history (the peer is gone); anything else is a violation
                tolerate(obs, f)?;
                obs.label("ended-by-known-finding");
                return Ok(());
            }
        }
        // the environment keeps moving: one more block, then a fair drain
        w.grow(0, 1);
        growth += 1;
        let tipn = w.chains[0].tip();
        let all_follow = |w: &World| w.connected_peers().iter().all(|p| p.follow);
        let want_filter = !regs.is_empty() && all_follow(&w);
        let res = w.drain(900, |w| {
            goal(w, tipn, want_filter)
        });
        if let Err(f) = check(&w) {
            tolerate(obs, f)?;
            obs.label("ended-by-known-finding");
            return Ok(());
        }
        // reconnect after legitimate idle disconnects and drain again (the real network re-dials)
        let mut res = res;
        let mut redials = 0;
        while !res.goal && redials < 3 && w.connected_peers().iter().filter(|p| p.follow).count() < q {
            redials += 1;
            w.grow(0, 1);
            let tip = w.chains[0].tip();
            for _ in w.connected_peers().iter().filter(|p| p.follow).count()..q {
                w.connect(0, tip, true);
            }
            let tipn = tip;
            res = w.drain(900, |w| {
                goal(w, tipn, want_filter)
            });
            if let Err(f) = check(&w) {
                tolerate(obs, f)?;
                obs.label("ended-by-known-finding");
                return Ok(());
            }
        }
        crate::verif_hooks::set_rng_seed(None);
        let tipn = w.chains[0].tip();
        let stored: u64 = w.storage().get_tip_header().raw().number().unpack();
        let sampled = *w.stats.get("GetLastStateProof.sampled").unwrap_or(&0);
        obs.label(format!("last_n:{}", last_n));
        obs.label(format!("peers:{}", n_peers));
        obs.label(if sampled > 0 { "sampled-proof" } else { "no-sampled-proof" });
        if restarts > 0 {
            obs.label("restart");
        }
        obs.note("stats", json!(w.stats));
        obs.note("rounds", json!(res.rounds));
        if !res.goal {
            // known finding D18: a peer left in Request*Proof although it answered (TAU soft failure on a proof
            // starting at the genesis block, then the request cannot be rebuilt because the stored tip caught up)
            let stored_n: u64 = w.storage().get_tip_header().raw().number().unpack();
            for p in w.connected_peers() {
                if let Some(st) = w.c().peers.get_state(&p.index) {
                    if let Some(rq) = st.get_prove_request() {
                        if rq.get_last_header().header().number() <= stored_n && w.outbox_len() == 0 {
                            let f = Failure::new(
                                "honest-peer-left-waiting/proof-request-not-rebuilt-after-tau-soft-failure",
                                format!("peer {} answered its proof request for #{} but stays in {} (stored tip {}); it will be disconnected by the 60 s timeout", p.index, rq.get_last_header().header().number(), st, stored_n),
                            );
                            tolerate(obs, f)?;
                            obs.label("ended-by-known-finding");
                            return Ok(());
                        }
                    }
                }
            }
            let s = w.storage();
            return Err(Failure::new(
                if stored != tipn { "not-converged/tip" } else { "not-converged/filter-sync" },
                format!(
                    "after drain (rounds {}, fixpoint {}): stored tip {} chain tip {} min_filtered {} matched {:?} peers {:?} stats {:?}",
                    res.rounds,
                    res.fixpoint,
                    stored,
                    tipn,
                    s.get_min_filtered_block_number(),
                    s.get_earliest_matched_blocks().map(|(a, b, c)| (a, b, c.len())),
                    w.connected_peers().iter().map(|p| (p.index.value(), p.tip, w.c().peers.get_state(&p.index).map(|s| s.to_string()))).collect::<Vec<_>>(),
                    w.stats
                ),
            ));
        }
        // every connected proven peer's proved header is its own tip
        for p in w.connected_peers() {
            if let Some(st) = w.c().peers.get_state(&p.index) {
                if let Some(ps) = st.get_prove_state() {
                    let n = ps.get_last_header().header().number();
                    if n != p.tip && p.follow {
                        return Err(Failure::new("proved-header-differs-from-peer-tip", format!("peer {} tip {} proved {}", p.index, p.tip, n)));
                    }
                }
            }
        }
        if !regs.is_empty() && !want_filter {
            obs.label("filter-sync-not-judged(lagging peer connected)");
        }
        // index correctness for the registered scripts (shared oracle)
        for r in regs.iter().filter(|_| want_filter) {
            if let Err(m) = compare(&w, &w.chains[0], tipn, r) {
                return Err(Failure::new(format!("index/{}", m.kind), m.detail));
            }
        }
        let distinct_diffs = {
            let mut v: Vec<u32> = epochs.iter().map(|e| e.1).collect();
            v.dedup();
            v.len()
        };
        let epochs_spanned = w.chains[0].epoch_of(tipn).0.number();
        if sampled > 0 && epochs_spanned >= 2 && distinct_diffs >= 2 {
            let mut h = std::collections::hash_map::DefaultHasher::new();
            use std::hash::{Hash, Hasher};
            format!("{:?}", case.steps).hash(&mut h);
            obs.nontrivial((last_n, n_peers, epochs_spanned.min(20), restarts > 0, growth / 8, tipn / 32, h.finish()));
        }
        Ok(())
    }
}

/// Honest peers must never be banned; disconnects are legitimate only for the documented timeouts.
/// Known findings get a specific signature (see known_findings.json).
pub fn classify_bans(w: &World) -> Result<(), Failure> {
    if let Some((p, reason)) = w.bans().first() {
        let class = ban_class(reason);
        let sig = if class == "MalformedProtocolMessage" && reason.contains("since no sampled blocks") {
            match w.last_layouts.get(p) {
                Some((layout, n_diffs)) if layout.sampled.is_empty() && *n_diffs > 0 => "honest-peer-banned/no-sample-below-last-n".to_string(),
                _ => format!("honest-peer-banned/{}", class),
            }
        } else if class == "InvalidTotalDifficulty" && (reason.contains("lower limit") || reason.contains("upper limit")) && nk_even(reason) {
            // end-to-end manifestation of known finding D12 (C14): legal history rejected when n-k is even
            format!("honest-peer-banned/InvalidTotalDifficulty/{}-limit/nk-even", if reason.contains("upper limit") { "upper" } else { "lower" })
        } else if class == "CheckPointsIsUnexpected" && stale_start(reason) {
            "honest-peer-banned/CheckPointsIsUnexpected/stale-duplicate-answer".to_string()
        } else {
            format!("honest-peer-banned/{}", class)
        };
        return Err(Failure::new(sig, format!("peer {} banned: {}", p, reason)));
    }
    legit_timeout_disconnects(w).map_err(|e| Failure::new("honest-peer-disconnected", e))
}

fn nk_even(reason: &str) -> bool {
    let get = |tag: &str| -> Option<u64> { reason.split(tag).nth(1)?.split(|c: char| !c.is_ascii_digit()).next()?.parse().ok() };
    match (get("n: "), get("k: ")) {
        (Some(n), Some(k)) if n >= k => (n - k) % 2 == 0,
        _ => false,
    }
}

/// "expect starting from X but got Y" with Y < X: the answer to an older duplicate request.
fn stale_start(reason: &str) -> bool {
    let nums: Vec<u64> = reason.split(|c: char| !c.is_ascii_digit()).filter_map(|t| t.parse().ok()).collect();
    // [473, X, Y]
    nums.len() >= 3 && nums[nums.len() - 1] < nums[nums.len() - 2]
}

/// Goal state of an honest sync: stored tip = chain tip, every connected tip-following peer proven at
/// its own tip, and (if demanded) filter sync finished with nothing pending.
pub fn goal(w: &World, tipn: u64, want_filter: bool) -> bool {
    let s = w.storage();
    let t: u64 = s.get_tip_header().raw().number().unpack();
    if t != tipn {
        return false;
    }
    for p in w.connected_peers().iter().filter(|p| p.follow) {
        let proven = w.c().peers.get_state(&p.index).and_then(|st| st.get_prove_state().map(|ps| ps.get_last_header().header().number()));
        if proven != Some(p.tip) {
            return false;
        }
    }
    !want_filter || (s.get_min_filtered_block_number() >= tipn && s.get_earliest_matched_blocks().is_none() && w.c().peers.matched_blocks().read().unwrap().is_empty())
}

pub fn ban_class(reason: &str) -> String {
    // "InvalidTotalDifficulty(434): ..." -> "InvalidTotalDifficulty"
    reason.split(|c: char| c == '(' || c == ':' || c == ' ').next().unwrap_or("").to_string()
}
