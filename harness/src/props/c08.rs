//! C08 — a crash at any storage write loses no script activity and leaves a usable store.
//!
//! Fault injection over generated histories: the write hook (`verif_hooks::write_point`, called before every
//! RocksDB put / delete / batch commit of storage.rs) panics at the k-th write; the harness unwinds, drops every
//! in-memory object (RocksDB closes), boots again from the same directory exactly like `RunConfig::execute`,
//! re-dials honest peers and goes on with the history. Oracles:
//!   1. every start after a crash succeeds (no panic in boot / accessors);
//!   2. a set_scripts call that was interrupted is either not applied or applied (never a third script set);
//!   3. after the history and a fair drain the RPC answers equal the reference index of the chain, exactly what the
//!      same history gives without the crash (the history without crash is run first and must pass, and failures that
//!      a clean restart right before / after the same operation reproduces are not attributed to the crash).

use std::cell::RefCell;
use std::collections::BTreeMap;
use std::panic::{catch_unwind, AssertUnwindSafe};
use std::sync::atomic::{AtomicU64, Ordering};
use std::sync::Arc;

use ckb_types::prelude::*;
use proptest::prelude::*;
use serde::{Deserialize, Serialize};
use serde_json::json;

use crate::lcv::oracle::index::Reg;
use crate::lcv::pbt::*;
use crate::lcv::props::common::*;
use crate::lcv::sim::world::World;

#[derive(Debug, Clone, Serialize, Deserialize)]
pub enum Op {
    S(Step),
    /// every honest peer moves to a heavier branch forking `depth` below the tip of the current one
    Switch { depth: u8, extra: u8, seed: u64 },
}

#[derive(Debug, Clone, Serialize, Deserialize)]
pub struct Case {
    pub chain: ChainParams,
    pub net: NetParams,
    pub initial: Vec<RegSpec>,
    pub ops: Vec<Op>,
    /// crash points: the first is a position among the writes of the crash-free run, the others are distances
    pub crash: Vec<u16>,
    /// try every write point of the history instead (fault enumeration)
    pub all_points: bool,
}

pub struct C08;

static COUNT: AtomicU64 = AtomicU64::new(0);
thread_local! {
    static TARGETS: RefCell<Vec<u64>> = RefCell::new(vec![]);
    static SITES: RefCell<Vec<&'static str>> = RefCell::new(vec![]);
}

const CRASH: &str = "LCV-CRASH:";

fn install_hook() {
    crate::verif_hooks::set_write_hook(Some(Arc::new(|site| {
        let n = COUNT.fetch_add(1, Ordering::SeqCst);
        SITES.with(|s| s.borrow_mut().push(site));
        let hit = TARGETS.with(|t| t.borrow().contains(&n));
        if hit {
            panic!("{}{}", CRASH, site);
        }
    })));
}

fn remove_hook() {
    crate::verif_hooks::set_write_hook(None);
}

#[derive(Clone, Debug, PartialEq)]
enum Plan {
    Clean,
    /// absolute write indices
    Crash(Vec<u64>),
    /// control: a clean restart right before / after operation i (usize::MAX - 1: the first boot)
    RestartBefore(usize),
    RestartAfter(usize),
    /// control: die at a handler boundary (nothing torn): right before / after handler invocation n
    Boundary(u64, bool),
}

#[derive(Default, Debug)]
struct Outcome {
    writes: u64,
    /// writes before the final convergence phase (crash points are drawn from these)
    writes_in_history: u64,
    /// (operation index or BOOT, site, kind of operation)
    crashes: Vec<(usize, String, String)>,
    /// handler invocation number at each crash
    crash_events: Vec<u64>,
    ended: Option<String>,
    result: Option<Failure>,
    activity: bool,
    stats: BTreeMap<&'static str, u64>,
}

const BOOT: usize = usize::MAX;

fn op_kind(op: &Op) -> &'static str {
    match op {
        Op::Switch { .. } => "fork-switch",
        Op::S(Step::SetScripts(..)) => "set_scripts",
        Op::S(Step::Deliver(_)) => "deliver",
        Op::S(Step::Pump) => "pump",
        Op::S(Step::Drain(_)) => "drain",
        Op::S(Step::Tick(_)) => "tick",
        Op::S(Step::FetchTx(_)) | Op::S(Step::FetchHeader(_)) => "fetch-rpc",
        Op::S(Step::Grow(_)) => "grow",
        Op::S(Step::Restart) => "restart",
        Op::S(Step::Advance(_)) => "advance",
    }
}

enum Unwound {
    Crash(String),
    LongFork,
    Other(String, String),
}

fn classify_panic() -> Unwound {
    let (msg, loc) = take_last_panic().unwrap_or_default();
    if let Some(site) = msg.strip_prefix(CRASH) {
        Unwound::Crash(site.to_string())
    } else if msg.contains("long fork detected") || msg.contains("pump livelock") {
        Unwound::LongFork
    } else {
        Unwound::Other(msg, loc)
    }
}

/// Boots until it succeeds; crashes scheduled inside the boot are served. Err: a start that aborts by itself.
fn boot(w: &mut World, out: &mut Outcome, first: bool) -> Result<(), Failure> {
    for _ in 0..8 {
        let r = catch_unwind(AssertUnwindSafe(|| {
            if first {
                w.boot()
            } else {
                w.restart()
            }
        }));
        match r {
            Ok(()) => {
                // accessors every start relies on
                let r = catch_unwind(AssertUnwindSafe(|| {
                    let s = w.storage();
                    let _ = s.get_last_state();
                    let _ = s.get_last_n_headers();
                    let _ = s.get_min_filtered_block_number();
                    let _ = s.get_max_check_point_index();
                    let _ = s.get_last_check_point();
                    let _ = s.get_filter_scripts();
                    let _ = s.get_earliest_matched_blocks();
                    let _ = s.get_genesis_block();
                }));
                if r.is_err() {
                    let (msg, loc) = take_last_panic().unwrap_or_default();
                    return Err(Failure::new(format!("abort-on-every-start/{}", crate::lcv::props::c14::norm_panic(&msg, &loc)), format!("after crashes {:?}: {} at {}", out.crashes, msg, loc)));
                }
                return Ok(());
            }
            Err(_) => match classify_panic() {
                Unwound::Crash(site) => {
                    w.client = None;
                    out.crashes.push((BOOT, site, "boot".to_string()));
                    out.crash_events.push(w.events);
                    continue;
                }
                Unwound::LongFork => unreachable!(),
                Unwound::Other(msg, loc) => {
                    w.client = None;
                    return Err(Failure::new(format!("abort-on-every-start/{}", crate::lcv::props::c14::norm_panic(&msg, &loc)), format!("after crashes {:?}: {} at {}", out.crashes, msg, loc)));
                }
            },
        }
    }
    Err(Failure::new("harness/boot-loop", "8 crashes in a row during boot"))
}

/// Known finding D20 (C04) has manifested: the store is on the current branch beyond a fork point but still holds
/// a matched-block record naming a block that only exists on an abandoned branch.
fn d20_manifest(sim: &Sim) -> bool {
    if sim.w.client.is_none() || sim.main == 0 {
        return false;
    }
    let main = &sim.w.chains[sim.main];
    let s = sim.w.storage();
    let tip = s.get_tip_header();
    if main.number_of(&tip.calc_header_hash()).is_none() {
        return false;
    }
    let mut rec = s.get_earliest_matched_blocks();
    // every record, not only the earliest
    let latest = s.get_latest_matched_blocks();
    for r in rec.take().into_iter().chain(latest) {
        for (h, _) in &r.2 {
            if main.number_of(h).is_none() && sim.w.chains.iter().any(|c| c.number_of(h).is_some()) {
                return true;
            }
        }
    }
    false
}

fn scripts_in_store(w: &World) -> Vec<(Vec<u8>, bool, u64)> {
    let mut v: Vec<_> = w
        .storage()
        .get_filter_scripts()
        .into_iter()
        .map(|ss| (ss.script.as_slice().to_vec(), matches!(ss.script_type, crate::storage::ScriptType::Type), ss.block_number))
        .collect();
    v.sort();
    v
}

fn execute(case: &Case, plan: &Plan) -> Outcome {
    let mut out = Outcome::default();
    COUNT.store(0, Ordering::SeqCst);
    SITES.with(|s| s.borrow_mut().clear());
    TARGETS.with(|t| {
        *t.borrow_mut() = match plan {
            Plan::Crash(v) => v.clone(),
            _ => vec![],
        }
    });
    let chain = build_chain(&case.chain);
    let cfg = build_cfg(&case.net);
    let last_n = cfg.last_n;
    let q = ((cfg.max_outbound as usize) + 1) / 2;
    let w = World::new_opt(vec![chain], cfg, false);
    let mut sim = Sim { w, regs: BTreeMap::new(), q, restarts: 0, fetches: 0, set_scripts_calls: 0, set_scripts_while_pending: 0, main: 0 };
    crate::verif_hooks::set_rng_seed(Some(case.chain.seed ^ 0xc08));
    install_hook();
    let r = run_history(case, plan, &mut sim, &mut out, last_n);
    remove_hook();
    crate::verif_hooks::set_rng_seed(None);
    out.writes = COUNT.load(Ordering::SeqCst);
    out.stats = sim.w.stats.clone();
    if let Err(f) = r {
        out.result = Some(f);
    }
    out
}

fn run_history(case: &Case, plan: &Plan, sim: &mut Sim, out: &mut Outcome, last_n: u64) -> Result<(), Failure> {
    if let Plan::Boundary(n, after) = plan {
        sim.w.boundary_crash = Some((*n, *after));
    }
    boot(&mut sim.w, out, true)?;
    if *plan == Plan::RestartAfter(BOOT - 1) {
        boot(&mut sim.w, out, false)?;
    }
    // the initial registration is operation 0 of the history
    let mut ops: Vec<Op> = vec![Op::S(Step::SetScripts(0, case.initial.clone()))];
    ops.extend(case.ops.iter().cloned());
    sim.connect_quorum();
    for (i, op) in ops.iter().enumerate() {
        if *plan == Plan::RestartBefore(i) {
            boot(&mut sim.w, out, false)?;
            sim.connect_quorum();
        }
        let model_new = match op {
            Op::S(Step::SetScripts(cmd, specs)) => Some((sim.model_after(*cmd, specs), *cmd, specs.clone())),
            _ => None,
        };
        let r = catch_unwind(AssertUnwindSafe(|| apply(sim, op, last_n)));
        match r {
            Ok(()) => {}
            Err(_) => match classify_panic() {
                Unwound::Crash(site) => {
                    out.crashes.push((i, site.clone(), op_kind(op).to_string()));
                    out.crash_events.push(sim.w.events);
                    sim.w.boundary_crash = None;
                    boot(&mut sim.w, out, false)?;
                    if let Some(((regs, model), cmd, specs)) = model_new {
                        // the user looks at get_scripts: applied, or not applied (then the call is repeated)
                        let got = scripts_in_store(&sim.w);
                        let as_keys = |m: &BTreeMap<(Vec<u8>, bool), Reg>| m.keys().cloned().collect::<Vec<_>>();
                        let got_keys: Vec<_> = got.iter().map(|(s, t, _)| (s.clone(), *t)).collect();
                        // (a list may mention a script twice: the last mention counts)
                        let mentioned_new = cmd % 3 == 2
                            || regs.iter().all(|r| got.iter().any(|(s, t, n)| (s.clone(), *t) == key(r) && Some(*n) == model.get(&key(r)).map(|m| m.start)));
                        if got_keys == as_keys(&model) && mentioned_new {
                            sim.regs = model;
                        } else if got_keys == as_keys(&sim.regs) {
                            sim.connect_quorum();
                            let r2 = catch_unwind(AssertUnwindSafe(|| sim.set_scripts(cmd, &specs)));
                            if r2.is_err() {
                                match classify_panic() {
                                    Unwound::Crash(site) => {
                                        // a second crash in the repeated call: give up on this history
                                        out.crashes.push((i, site, "set_scripts-repeated".to_string()));
                                        out.crash_events.push(sim.w.events);
                                        boot(&mut sim.w, out, false)?;
                                        out.ended = Some("second-crash-in-repeated-set_scripts".into());
                                        return Ok(());
                                    }
                                    Unwound::LongFork => unreachable!(),
                                    Unwound::Other(m, l) => return Err(Failure::new(format!("panic/{}", crate::lcv::props::c14::norm_panic(&m, &l)), m)),
                                }
                            }
                        } else {
                            return Err(Failure::new(
                                format!("set_scripts-torn/{}", site),
                                format!("after a crash at {} inside set_scripts({}) the store holds {} scripts: neither the old set ({}) nor the new one ({})", site, cmd % 3, got.len(), sim.regs.len(), model.len()),
                            ));
                        }
                    }
                    sim.connect_quorum();
                }
                Unwound::LongFork => {
                    out.ended = Some("long-fork-abort-or-livelock".into());
                    return Ok(());
                }
                Unwound::Other(m, l) => return Err(Failure::new(format!("panic/{}", crate::lcv::props::c14::norm_panic(&m, &l)), format!("{} at {} in op {} {:?}", m, l, i, op))),
            },
        }
        if let Some(l) = ended_by_ban(&sim.w) {
            out.ended = Some(l);
            return Ok(());
        }
        if d20_manifest(sim) {
            out.ended = Some("known-finding-D20(C04):record-of-an-abandoned-block-kept".into());
            return Ok(());
        }
        if *plan == Plan::RestartAfter(i) {
            boot(&mut sim.w, out, false)?;
            sim.connect_quorum();
        }
    }
    // no more crashes while converging
    out.writes_in_history = COUNT.load(Ordering::SeqCst);
    TARGETS.with(|t| t.borrow_mut().clear());
    sim.w.boundary_crash = None;
    let fin = catch_unwind(AssertUnwindSafe(|| sim.finish()));
    match fin {
        Err(_) => match classify_panic() {
            Unwound::LongFork => {
                out.ended = Some("long-fork-abort-or-livelock".into());
                return Ok(());
            }
            Unwound::Crash(_) => unreachable!(),
            Unwound::Other(m, l) => return Err(Failure::new(format!("panic/{}", crate::lcv::props::c14::norm_panic(&m, &l)), format!("{} at {} while converging", m, l))),
        },
        Ok(Err(f)) => {
            if f.signature.starts_with("honest-peer-") {
                out.ended = Some(format!("ended-by-ban:{}", f.signature));
                return Ok(());
            }
            if d20_manifest(sim) {
                out.ended = Some("known-finding-D20(C04):record-of-an-abandoned-block-kept".into());
                return Ok(());
            }
            return Err(f);
        }
        Ok(Ok(())) => {}
    }
    sim.compare_all()?;
    // was there anything to lose?
    let chain = &sim.w.chains[sim.main];
    out.activity = sim.regs.values().any(|r| chain.cells.values().any(|ci| r.matches(&ci.output) && r.in_range(ci.block)));
    Ok(())
}

pub fn apply(sim: &mut Sim, op: &Op, last_n: u64) {
    match op {
        Op::S(st) => sim.step(st),
        Op::Switch { depth, extra, seed } => {
            let cur = sim.main;
            let tip = sim.w.chains[cur].tip();
            // short forks only (the documented abort of deeper ones is C04's subject)
            let depth = (1 + *depth as u64 % last_n.saturating_sub(1).max(1)).min(tip.saturating_sub(1)).max(1);
            if tip < 3 {
                return;
            }
            let f = tip - depth;
            let mut b = sim.w.chains[cur].fork_at(f, *seed);
            b.mine_n(depth + 1 + *extra as u64 % 4);
            let b_tip = b.tip();
            sim.w.chains.push(b);
            sim.main = sim.w.chains.len() - 1;
            let main = sim.main;
            for p in sim.w.connected_peers() {
                sim.w.switch_peer(p.index, main, b_tip);
            }
        }
    }
}

impl Property for C08 {
    type Case = Case;
    const ID: &'static str = "C08";

    fn cases(tier: Tier) -> u32 {
        match tier {
            Tier::Quick => 2500,
            Tier::Thorough => 12_000,
        }
    }

    fn rule() -> &'static str {
        "cases: a generated sync history (first start, set_scripts all / partial / delete, deliveries in any order, ticks, growth, fetch RPCs, clean restarts, fork switches below last-N, partial drains) x crash points: the process dies right before the k-th storage write \
         (every put / delete / batch commit of storage.rs, k drawn over the writes of the crash-free run; up to 3 crashes per history; 1 history in 8 tries EVERY write point), then restarts from the store, re-dials its peers and goes on. \
         Oracles: every start succeeds; an interrupted set_scripts is applied or not applied; after a fair drain all index RPC answers equal the reference index of the chain (= the crash-free run, which is executed first and must pass). \
         A failure that a clean restart right before or after the interrupted operation reproduces is not attributed to the crash. \
         non-trivial: a crash hit a write inside a multi-write operation while a registered script had activity in range; distinct by (write site, operation kind, crash count, history hash)"
    }

    fn strategy(tier: Tier) -> BoxedStrategy<Case> {
        let maxlen = match tier {
            Tier::Quick => 80u16,
            Tier::Thorough => 150u16,
        };
        let op = prop_oneof![
            12 => step_strategy(true).prop_map(Op::S),
            1 => (any::<u8>(), any::<u8>(), any::<u64>()).prop_map(|(depth, extra, seed)| Op::Switch { depth, extra, seed }),
        ];
        (chain_params(maxlen), net_params(), prop::collection::vec(reg_spec(), 1..3), prop::collection::vec(op, 0..24), prop::collection::vec(any::<u16>(), 1..4), prop::bool::weighted(0.125))
            .prop_map(|(mut chain, mut net, initial, ops, crash, all_points)| {
                chain.density = chain.density.max(50);
                chain.len = chain.len.max(12);
                // forks stay below the check point interval (see C04)
                net.last_n %= 4;
                net.interval = 2 + net.interval % 2;
                // one peer at a time: the client picks peers at random (thread_rng, hash-map order); with a single peer the
                // crash-free run, the crash run and the control runs are the same function of the case
                net.max_outbound = 1;
                Case { chain, net, initial, ops, crash, all_points }
            })
            .boxed()
    }

    fn run(case: &Case, obs: &mut Obs) -> Result<(), Failure> {
        let clean = execute(case, &Plan::Clean);
        if let Some(f) = &clean.result {
            // not this property's business: the other checks judge the crash-free history
            obs.label(format!("crash-free-run-fails:{}", f.signature));
            return Ok(());
        }
        if let Some(e) = &clean.ended {
            obs.label(format!("crash-free-run-{}", e));
            return Ok(());
        }
        let w = clean.writes_in_history;
        if w == 0 {
            return Ok(());
        }
        if std::env::var("LCV_C08_DETERMINISM").is_ok() {
            let sites1 = SITES.with(|s| s.borrow().clone());
            let again = execute(case, &Plan::Clean);
            let sites2 = SITES.with(|s| s.borrow().clone());
            if again.writes_in_history != w || sites1 != sites2 {
                let at = sites1.iter().zip(sites2.iter()).position(|(a, b)| a != b);
                obs.label(format!("nondeterministic-clean-run:{}vs{} first difference {:?}", w, again.writes, at));
                eprintln!("NONDET {} vs {} at {:?} case {}", w, again.writes, at, serde_json::to_string(case).unwrap());
            } else {
                obs.label("deterministic-clean-run");
            }
            return Ok(());
        }
        let plans: Vec<Vec<u64>> = if case.all_points {
            obs.label("all-write-points");
            (0..w).map(|k| vec![k]).collect()
        } else {
            let mut v = vec![];
            let mut at = 0u64;
            for (i, c) in case.crash.iter().enumerate() {
                let k = if i == 0 { idx(*c, w as usize) as u64 } else { at + 1 + (*c as u64 % 24) };
                v.push(k);
                at = k;
            }
            vec![v]
        };
        obs.note("writes_in_crash_free_run", json!(w));
        for targets in plans {
            let out = execute(case, &Plan::Crash(targets.clone()));
            for (_, site, kind) in &out.crashes {
                obs.label(format!("crash@{}/{}", site, kind));
            }
            let mut out = out;
            if out.result.is_none() && out.ended.as_deref().map(|e| e.contains("long-fork")).unwrap_or(false) {
                out.result = Some(Failure::new("client-aborts(long fork detected)", "the crash-free run has no abort"));
                out.ended = None;
            }
            if out.crashes.is_empty() {
                // the planned write was not reached (the run ended earlier): nothing to judge
                obs.label("no-crash-fired");
                continue;
            }
            if out.result.is_some() {
                // a verdict needs a reproducible failure
                let again = execute(case, &Plan::Crash(targets.clone()));
                let same = match (&out.result, &again.result) {
                    (Some(a), Some(b)) => a.signature == b.signature,
                    (Some(a), None) => a.signature.starts_with("client-aborts") && again.ended.as_deref().map(|e| e.contains("long-fork")).unwrap_or(false),
                    _ => false,
                };
                if !same {
                    obs.label("failure-not-reproducible");
                    continue;
                }
            }
            if let Some(f) = out.result {
                // attribution: does a clean restart around the same operation fail alike?
                let mut controls = vec![];
                for (n, (i, _, kind)) in out.crashes.iter().enumerate() {
                    let (before, after) = if *i == BOOT { (Plan::RestartAfter(BOOT - 1), Plan::RestartAfter(BOOT - 1)) } else { (Plan::RestartBefore(*i), Plan::RestartAfter(*i)) };
                    controls.push(before);
                    controls.push(after);
                    // the crash happened inside a protocol handler: the same death at the handler's boundaries
                    if !matches!(kind.as_str(), "boot" | "set_scripts" | "set_scripts-repeated" | "fetch-rpc") {
                        if let Some(e) = out.crash_events.get(n) {
                            controls.push(Plan::Boundary(*e, false));
                            controls.push(Plan::Boundary(*e, true));
                        }
                    }
                }
                controls.dedup();
                let mut reproduced = None;
                for c in &controls {
                    let o = execute(case, c);
                    let same = match (&o.result, &o.ended) {
                        (Some(g), _) => g.signature == f.signature,
                        (None, Some(_)) => true, // the control history ends early (ban / abort judged elsewhere): inconclusive
                        _ => false,
                    };
                    if same {
                        reproduced = Some(format!("{:?}", c));
                        break;
                    }
                }
                if let Some(c) = reproduced {
                    obs.label(format!("failure-not-attributed-to-crash:{} (control {})", f.signature, c));
                    continue;
                }
                let first = out.crashes.first().cloned().unwrap_or((0, "?".into(), "?".into()));
                let sig = if f.signature.starts_with("abort-on-every-start") || f.signature.starts_with("set_scripts-torn") {
                    f.signature.clone()
                } else {
                    format!("after-crash@{}/{}/{}", first.1, first.2, f.signature)
                };
                tolerate(obs, Failure::new(sig, format!("crash points {:?} (write index {:?} of {}): {}", out.crashes, targets, w, f.message)))?;
                continue;
            }
            if let Some(e) = out.ended {
                obs.label(format!("crash-run-{}", e));
                continue;
            }
            if out.activity {
                use std::hash::{Hash, Hasher};
                let mut h = std::collections::hash_map::DefaultHasher::new();
                format!("{:?}", case.ops).hash(&mut h);
                for (_, site, kind) in &out.crashes {
                    obs.nontrivial((site.clone(), kind.clone(), out.crashes.len(), if case.all_points { 0 } else { h.finish() }));
                }
            }
        }
        Ok(())
    }

    fn max_shrink_iters() -> u32 {
        150
    }
}
