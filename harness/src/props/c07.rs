//! C07 — check points are finalized only by quorum agreement, never rewritten, never regress;
//! fewer than quorum deviating peers can neither finalize a wrong value nor block the rest;
//! a peer contradicting a final value is banned.
//! Drives the real BlockFilterCheckPoints handler and the real refresh tick (finalize_check_points)
//! on a real store; peers are proven with the repository's own `mock_prove_state` seam.

use std::collections::{BTreeMap, HashMap};
use std::sync::Arc;

use ckb_chain_spec::consensus::ConsensusBuilder;
use ckb_network::{CKBProtocolHandler, PeerIndex, SupportProtocols};
use ckb_types::{core::HeaderBuilder, packed, prelude::*, utilities::merkle_mountain_range::VerifiableHeader};
use proptest::prelude::*;
use serde::{Deserialize, Serialize};
use serde_json::json;

use crate::lcv::pbt::*;
use crate::lcv::sim::net::{ctx, Shared};
use crate::lcv::sim::world::{set_now, START_TIME};
use crate::protocols::{FilterProtocol, LightClientProtocol, Peers};
use crate::storage::Storage;

const INTERVAL: u64 = 10;

#[derive(Debug, Clone, Serialize, Deserialize)]
pub struct PeerSpec {
    /// 0 honest, 1 deviates alone from `dev_from` on, 2 member of colluding group A, 3 colluding group B
    pub kind: u8,
    pub dev_from: u8,
    /// how many check points beyond index 0 its proved number covers
    pub proved_cps: u8,
}

#[derive(Debug, Clone, Serialize, Deserialize)]
pub enum Step {
    /// the selected peer sends its next chunk of `len` check points (first one overlapping)
    Msg(u16, u8),
    Tick,
    Connect(PeerSpec),
    Disconnect(u16),
    Restart,
}

#[derive(Debug, Clone, Serialize, Deserialize)]
pub struct Case {
    pub max_outbound: u8,
    pub initial: Vec<PeerSpec>,
    pub steps: Vec<Step>,
}

pub struct C07;

fn spec() -> impl Strategy<Value = PeerSpec> {
    (prop_oneof![5 => Just(0u8), 2 => Just(1u8), 2 => Just(2u8), 1 => Just(3u8)], 1u8..12, 1u8..16).prop_map(|(kind, dev_from, proved_cps)| PeerSpec { kind, dev_from, proved_cps })
}

fn value(tag: u8, i: u64) -> packed::Byte32 {
    let mut b = [0u8; 32];
    b[0] = tag;
    b[1..9].copy_from_slice(&i.to_le_bytes());
    b[31] = 0x5a;
    b.pack()
}

struct SimPeerCp {
    index: PeerIndex,
    spec: PeerSpec,
    connected: bool,
}

struct Sys {
    dir: tempfile::TempDir,
    storage: Storage,
    peers: Arc<Peers>,
    lc: LightClientProtocol,
    filter: FilterProtocol,
    shared: Arc<Shared>,
    sim: Vec<SimPeerCp>,
    next: usize,
    max_outbound: u32,
    cp0: packed::Byte32,
}

impl Sys {
    fn vector_value(&self, spec: &PeerSpec, serial: usize, i: u64) -> packed::Byte32 {
        if i == 0 {
            return self.cp0.clone();
        }
        let honest = value(1, i);
        match spec.kind {
            0 => honest,
            1 => {
                if i >= spec.dev_from as u64 {
                    value(100 + (serial % 100) as u8, i)
                } else {
                    honest
                }
            }
            2 => {
                if i >= spec.dev_from as u64 {
                    value(2, i)
                } else {
                    honest
                }
            }
            _ => {
                if i >= spec.dev_from as u64 {
                    value(3, i)
                } else {
                    honest
                }
            }
        }
    }

    fn boot(&mut self) {
        let consensus = ConsensusBuilder::default().build();
        let peers = Arc::new(Peers::new(self.max_outbound, INTERVAL, self.storage.get_last_check_point()));
        self.lc = LightClientProtocol::new(self.storage.clone(), Arc::clone(&peers), consensus);
        self.filter = FilterProtocol::new(self.storage.clone(), Arc::clone(&peers));
        self.peers = peers;
        self.shared = Arc::new(Shared::default());
        for p in self.sim.iter_mut() {
            p.connected = false;
        }
    }

    fn connect(&mut self, spec: PeerSpec) -> bool {
        let connected = self.sim.iter().filter(|p| p.connected).count();
        if connected >= self.max_outbound as usize {
            return false;
        }
        let index = PeerIndex::new(self.next);
        self.next += 1;
        self.peers.add_peer(index);
        let number = spec.proved_cps as u64 * INTERVAL + INTERVAL + 3;
        let header = HeaderBuilder::default().number(number.pack()).nonce((self.next as u128).pack()).build();
        let vh = VerifiableHeader::new(header, Default::default(), None, Default::default());
        self.peers.mock_prove_state(index, vh).expect("mock prove state");
        self.sim.push(SimPeerCp { index, spec, connected: true });
        true
    }

    fn disconnect(&mut self, index: PeerIndex) {
        if let Some(p) = self.sim.iter_mut().find(|p| p.index == index) {
            p.connected = false;
        }
        let c = ctx(&self.shared, SupportProtocols::LightClient);
        futures::executor::block_on(self.lc.disconnected(c, index));
    }

    fn stored(&self) -> (u32, Vec<packed::Byte32>) {
        let max = self.storage.get_max_check_point_index();
        (max, self.storage.get_check_points(0, 1_000_000))
    }

    /// bans requested by the client turn into disconnects (as the real network does)
    fn process_bans(&mut self, seen: &mut usize) -> Vec<PeerIndex> {
        let bans: Vec<(PeerIndex, String)> = self.shared.banned.lock().unwrap().clone();
        let new: Vec<PeerIndex> = bans[*seen..].iter().map(|(p, _)| *p).collect();
        *seen = bans.len();
        for p in &new {
            self.disconnect(*p);
        }
        new
    }
}

impl Property for C07 {
    type Case = Case;
    const ID: &'static str = "C07";

    fn cases(tier: Tier) -> u32 {
        match tier {
            Tier::Quick => 12_000,
            Tier::Thorough => 300_000,
        }
    }

    fn rule() -> &'static str {
        "cases: max_outbound 1..6 (quorum = ceil/2), up to max_outbound proven peers with check point vectors that are honest, deviate alone from some index, or collude in one of two groups, with different proved heights (vector lengths), \
         x a schedule of chunked BlockFilterCheckPoints messages, refresh ticks, connects, disconnects and restarts. After every step: final index monotone, stored vector only extended, every newly final value backed by >= quorum proven peers agreeing on all indices since the previous final one (from the state captured before the tick), \
         honest values only when < quorum peers deviate, progress when a quorum agrees and fewer than quorum do not, contradicting peers banned. non-trivial: a tick at which >= 2 proven peers disagree at a not-yet-final index; distinct by (max_outbound, #proven, #distinct values at the first contested index, restart?, schedule hash)"
    }

    fn strategy(_tier: Tier) -> BoxedStrategy<Case> {
        let step = prop_oneof![
            8 => (any::<u16>(), 2u8..8).prop_map(|(p, l)| Step::Msg(p, l)),
            4 => Just(Step::Tick),
            1 => spec().prop_map(Step::Connect),
            1 => any::<u16>().prop_map(Step::Disconnect),
            1 => Just(Step::Restart),
        ];
        (1u8..7, prop::collection::vec(spec(), 1..7), prop::collection::vec(step, 1..60)).prop_map(|(max_outbound, initial, steps)| Case { max_outbound, initial, steps }).boxed()
    }

    fn run(case: &Case, obs: &mut Obs) -> Result<(), Failure> {
        set_now(START_TIME);
        let dir = tempfile::Builder::new().prefix("lcv07").tempdir_in(crate::lcv::tmp_root()).unwrap();
        let storage = Storage::new(dir.path());
        let consensus = ConsensusBuilder::default().build();
        storage.init_genesis_block(consensus.genesis_block().data());
        let cp0 = storage.get_check_points(0, 1)[0].clone();
        let max_outbound = case.max_outbound.max(1) as u32;
        let q = ((max_outbound + 1) / 2) as usize;
        let peers = Arc::new(Peers::new(max_outbound, INTERVAL, storage.get_last_check_point()));
        let mut sys = Sys {
            lc: LightClientProtocol::new(storage.clone(), Arc::clone(&peers), consensus),
            filter: FilterProtocol::new(storage.clone(), Arc::clone(&peers)),
            dir,
            storage,
            peers,
            shared: Arc::new(Shared::default()),
            sim: vec![],
            next: 1,
            max_outbound,
            cp0,
        };
        for s in case.initial.iter().take(max_outbound as usize) {
            sys.connect(s.clone());
        }
        let mut bans_seen = 0usize;
        let mut nt_keys: Vec<(usize, usize)> = vec![];
        let mut restarted = false;
        let (mut prev_max, mut prev_vec) = sys.stored();
        for st in &case.steps {
            match st {
                Step::Msg(sel, len) => {
                    let conn: Vec<usize> = sys.sim.iter().enumerate().filter(|(_, p)| p.connected).map(|(i, _)| i).collect();
                    if conn.is_empty() {
                        continue;
                    }
                    let pi = conn[idx(*sel, conn.len())];
                    let index = sys.sim[pi].index;
                    let spec = sys.sim[pi].spec.clone();
                    // the peer's cursor: from the client's own bookkeeping (the server answers what is asked)
                    let all = sys.peers.get_all_proved_check_points();
                    let (start_idx, held) = match all.get(&index) {
                        Some(x) => x.clone(),
                        None => continue,
                    };
                    let next_idx = start_idx as u64 + held.len() as u64 - 1;
                    let avail = spec.proved_cps as u64 + 1; // the peer's chain has check points 0..=proved_cps+? (one beyond is dropped by the client)
                    if next_idx >= avail {
                        continue;
                    }
                    let end = (next_idx + *len as u64).min(avail + 1);
                    let vals: Vec<packed::Byte32> = (next_idx..end).map(|i| sys.vector_value(&spec, pi, i)).collect();
                    let msg = packed::BlockFilterMessage::new_builder()
                        .set(packed::BlockFilterCheckPoints::new_builder().start_number((next_idx * INTERVAL).pack()).block_filter_hashes(vals.pack()).build())
                        .build();
                    let c = ctx(&sys.shared, SupportProtocols::Filter);
                    futures::executor::block_on(sys.filter.received(c, index, msg.as_bytes()));
                    // a check point message is only rejected (ban) when it contradicts what the peer said before: never for these peers
                    let newly = sys.process_bans(&mut bans_seen);
                    // the message contradicts what the client holds for this peer (e.g. the final value it was
                    // initialised with after a restart) iff the peer's own value at the cursor differs
                    let contradicts = held.last() != Some(&sys.vector_value(&spec, pi, next_idx));
                    if contradicts && newly.is_empty() {
                        return Err(Failure::new("contradicting-check-point-message-not-banned", format!("peer {} kind {} cursor {}", index, spec.kind, next_idx)));
                    }
                    if !contradicts && !newly.is_empty() {
                        let reason = sys.shared.banned.lock().unwrap().last().map(|x| x.1.clone()).unwrap_or_default();
                        return Err(Failure::new("consistent-check-point-message-banned", format!("peer {} kind {} : {}", index, spec.kind, reason)));
                    }
                }
                Step::Tick => {
                    let before = sys.peers.get_all_proved_check_points();
                    let connected_proven: HashMap<PeerIndex, (u32, Vec<packed::Byte32>)> = before.clone();
                    if connected_proven.len() > max_outbound as usize {
                        return Err(Failure::new("harness/more-proven-peers-than-max-outbound", String::new()));
                    }
                    let (old_max, _) = sys.stored();
                    let c = ctx(&sys.shared, SupportProtocols::LightClient);
                    futures::executor::block_on(sys.lc.notify(c, 0));
                    let (new_max, new_vec) = sys.stored();
                    let value_at = |p: &(u32, Vec<packed::Byte32>), i: u32| -> Option<packed::Byte32> {
                        if i < p.0 {
                            None
                        } else {
                            p.1.get((i - p.0) as usize).cloned()
                        }
                    };
                    // (iii) every newly final value is backed by a quorum that agreed on all indices since old_max
                    if new_max > old_max {
                        let mut agree: Vec<&(u32, Vec<packed::Byte32>)> = connected_proven.values().collect();
                        for i in (old_max + 1)..=new_max {
                            let stored_v = new_vec.get(i as usize).cloned();
                            agree.retain(|p| value_at(p, i) == stored_v);
                            if agree.len() < q {
                                return Err(Failure::new(
                                    "finalized-without-quorum",
                                    format!("index {} value {:?}: only {} proven peers agree on all indices ({}, {}], quorum {}", i, stored_v, agree.len(), old_max, i, q),
                                ));
                            }
                        }
                    }
                    // non-triviality: disagreement at a not yet final index
                    {
                        let i = old_max + 1;
                        let mut vals: Vec<packed::Byte32> = connected_proven.values().filter_map(|p| value_at(p, i)).collect();
                        let holders = vals.len();
                        vals.sort_by(|a, b| a.as_slice().cmp(b.as_slice()));
                        vals.dedup();
                        if vals.len() >= 2 {
                            nt_keys.push((holders, vals.len()));
                        }
                    }
                    // (v) progress: a quorum S with identical values through j, fewer than quorum proven peers outside S
                    {
                        // candidates: group peers by their value sequence from old_max (consistent with the final value)
                        let (final_idx, final_v) = (old_max, new_vec.get(old_max as usize).cloned());
                        let elig: Vec<&(u32, Vec<packed::Byte32>)> = connected_proven.values().filter(|p| p.0 <= final_idx && value_at(p, final_idx) == final_v).collect();
                        let mut best_j = old_max;
                        let mut j = old_max + 1;
                        let mut group: Vec<&(u32, Vec<packed::Byte32>)> = elig.clone();
                        loop {
                            // the most common value at j among the current group
                            let mut counts: BTreeMap<Vec<u8>, usize> = BTreeMap::new();
                            for p in &group {
                                if let Some(v) = value_at(p, j) {
                                    *counts.entry(v.as_slice().to_vec()).or_default() += 1;
                                }
                            }
                            let top = counts.iter().max_by_key(|(_, c)| **c).map(|(v, c)| (v.clone(), *c));
                            match top {
                                Some((v, c)) if c >= q => {
                                    group.retain(|p| value_at(p, j).map(|x| x.as_slice().to_vec()) == Some(v.clone()));
                                    let outside = connected_proven.len() - group.len();
                                    if outside < q {
                                        best_j = j;
                                    }
                                    j += 1;
                                }
                                _ => break,
                            }
                        }
                        if new_max < best_j {
                            return Err(Failure::new(
                                "agreeing-quorum-blocked",
                                format!("before the tick a quorum agreed through index {} with fewer than {} proven peers outside, but the final index is {} (was {})", best_j, q, new_max, old_max),
                            ));
                        }
                    }
                    // (vi) peers contradicting the final value at the final index are banned
                    let banned_now = sys.process_bans(&mut bans_seen);
                    for (pidx, p) in connected_proven.iter() {
                        let contradicts = p.0 <= old_max && value_at(p, old_max).map(|v| Some(v) != new_vec.get(old_max as usize).cloned()).unwrap_or(false);
                        // the cleaning step only runs with at least a quorum of proven peers
                        if contradicts && !banned_now.contains(pidx) && connected_proven.len() >= q {
                            return Err(Failure::new("contradicting-peer-not-banned", format!("peer {} holds another value at the final index {}", pidx, old_max)));
                        }
                        if !contradicts && banned_now.contains(pidx) && p.0 <= old_max {
                            return Err(Failure::new("consistent-peer-banned", format!("peer {}", pidx)));
                        }
                    }
                }
                Step::Connect(s) => {
                    sys.connect(s.clone());
                }
                Step::Disconnect(sel) => {
                    let conn: Vec<PeerIndex> = sys.sim.iter().filter(|p| p.connected).map(|p| p.index).collect();
                    if !conn.is_empty() {
                        sys.disconnect(conn[idx(*sel, conn.len())]);
                    }
                }
                Step::Restart => {
                    restarted = true;
                    let specs: Vec<PeerSpec> = sys.sim.iter().filter(|p| p.connected).map(|p| p.spec.clone()).collect();
                    sys.boot();
                    bans_seen = 0;
                    for s in specs {
                        sys.connect(s);
                    }
                }
            }
            // (i) + (ii) after every step
            let (max, vec) = sys.stored();
            if max < prev_max {
                return Err(Failure::new("final-index-decreased", format!("{} -> {}", prev_max, max)));
            }
            if vec.len() < prev_vec.len() || vec[..prev_vec.len()] != prev_vec[..] {
                return Err(Failure::new("final-check-point-rewritten", format!("step {:?}", st)));
            }
            if vec.len() as u32 != max + 1 {
                return Err(Failure::new("stored-vector-length-differs-from-final-index", format!("len {} max {}", vec.len(), max)));
            }
            // (iv) fewer than quorum deviating peers (ever connected) => only honest values
            let deviating = sys.sim.iter().filter(|p| p.spec.kind != 0).count();
            if deviating < q {
                for (i, v) in vec.iter().enumerate().skip(1) {
                    if v != &value(1, i as u64) {
                        return Err(Failure::new("wrong-value-finalized-with-fewer-than-quorum-deviating-peers", format!("index {} deviating {} quorum {}", i, deviating, q)));
                    }
                }
            }
            prev_max = max;
            prev_vec = vec;
        }
        obs.label(format!("quorum:{}", q));
        obs.label(format!("final-index:{}", prev_max.min(9)));
        obs.note("final_index", json!(prev_max));
        if !nt_keys.is_empty() {
            use std::hash::{Hash, Hasher};
            let mut h = std::collections::hash_map::DefaultHasher::new();
            format!("{:?}", case.steps).hash(&mut h);
            obs.nontrivial((max_outbound, nt_keys[0], restarted, h.finish()));
        }
        Ok(())
    }
}
