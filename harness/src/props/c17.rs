//! C17 — concurrent RPC calls and protocol handlers behave like some serial order.
//!
//! The harness owns the schedule at storage-write boundaries (hook H1 in pause mode). For a prepared mid-sync
//! world and two operations A, B that run on different threads in the real client (an RPC call and the handlers of
//! different protocols), and for EVERY write k of A: thread 1 runs A until it is about to do its k-th write and parks
//! there; thread 2 runs B (it either finishes or blocks on the lock A holds); A is released; both are joined.
//! Oracles: (1) the final store and the in-memory matched blocks equal those of the serial run A;B or B;A on an
//! identical world; (2) nothing deadlocks (no completion and no write for 30 s after the release); (3) a reader
//! looping get_cells_capacity during a fork rollback only sees (capacity, tip) pairs that exist at a write boundary.

use std::cell::Cell;
use std::collections::BTreeMap;
use std::sync::{Arc, Condvar, Mutex};
use std::time::{Duration, Instant};

use ckb_network::{bytes::Bytes as P2pBytes, CKBProtocolHandler, PeerIndex, SupportProtocols};
use ckb_types::H256;
use proptest::prelude::*;
use serde::{Deserialize, Serialize};
use serde_json::json;

use crate::lcv::oracle::index::Reg;
use crate::lcv::pbt::*;
use crate::lcv::props::c08::Op;
use crate::lcv::props::common::*;
use crate::lcv::sim::net::{ctx, Shared};
use crate::lcv::sim::world::{Client, World};
use crate::protocols::{FilterProtocol, LightClientProtocol, SyncProtocol};
use crate::service::{BlockFilterRpc, BlockFilterRpcImpl, Order, ScriptStatus, SearchKey, SetScriptsCommand};

#[derive(Debug, Clone, Serialize, Deserialize)]
pub enum Sel {
    /// the honest reply to the i-th in-flight request
    Reply(u16),
    /// the honest reply to an in-flight request of the given kind if there is one (else to any)
    ReplyKind(u8, u16),
    SetScripts(u8, Vec<RegSpec>),
    /// timer of the light-client (0..3) or filter (3..6) protocol
    Tick(u8),
}

#[derive(Debug, Clone, Serialize, Deserialize)]
pub struct Case {
    pub chain: ChainParams,
    pub net: NetParams,
    pub initial: Vec<RegSpec>,
    pub prefix: Vec<Op>,
    pub a: Sel,
    pub b: Sel,
}

pub struct C17;

const RPC: usize = 0;
const LC: usize = 1;
const FILTER: usize = 2;
const SYNC: usize = 3;
const ACTOR_NAMES: [&str; 4] = ["rpc", "light-client", "filter", "sync"];

#[derive(Clone)]
enum Prepared {
    Msgs { actor: usize, proto: SupportProtocols, peer: PeerIndex, data: Vec<P2pBytes>, what: String },
    Tick { actor: usize, proto: SupportProtocols, token: u64 },
    Rpc { cmd: u8, list: Vec<(Reg, u64)>, specs: Vec<RegSpec> },
}

impl Prepared {
    fn actor(&self) -> usize {
        match self {
            Prepared::Msgs { actor, .. } | Prepared::Tick { actor, .. } => *actor,
            Prepared::Rpc { .. } => RPC,
        }
    }
    fn describe(&self) -> String {
        match self {
            Prepared::Msgs { what, .. } => what.clone(),
            Prepared::Tick { proto, token, .. } => format!("tick({:?},{})", proto.protocol_id(), token),
            Prepared::Rpc { cmd, list, .. } => format!("set_scripts({},{} scripts)", ["all", "partial", "delete"][*cmd as usize % 3], list.len()),
        }
    }
}

enum Piece {
    Lc(LightClientProtocol),
    Filter(FilterProtocol),
    Sync(SyncProtocol),
    Rpc(BlockFilterRpcImpl),
}

// ---- schedule control (hook H1 in pause mode) ----

#[derive(Default)]
struct Ctl {
    park_actor: usize,
    park_at: Option<u64>,
    counts: [u64; 4],
    parked: bool,
    released: bool,
    done: [bool; 4],
    sites: Vec<(usize, &'static str)>,
    events: u64,
    /// observer (serial reference run of the reader check): the answer of the reader's query right before every write of A
    observe: bool,
    observed: Vec<String>,
}

static CTL: Mutex<Option<Ctl>> = Mutex::new(None);
static CV: Condvar = Condvar::new();
thread_local! {
    static ACTOR: Cell<usize> = Cell::new(usize::MAX);
    /// RPC handle of the thread that runs A in the observer run
    static READER_RPC: std::cell::RefCell<Option<BlockFilterRpcImpl>> = std::cell::RefCell::new(None);
}

/// The reader's query: capacity of every cell under the empty-args always-success lock prefix (all data-hash locks of the
/// universe) together with the tip it claims to belong to.
fn reader_query(rpc: &BlockFilterRpcImpl) -> String {
    let key = SearchKey { script: crate::lcv::sim::chain::universe_lock(3).into(), script_type: crate::service::ScriptType::Lock, filter: None, with_data: None, group_by_transaction: None };
    match rpc.get_cells_capacity(key) {
        Ok(c) => format!("{}@{:#x}", u64::from(c.capacity), c.block_hash),
        Err(e) => format!("error:{:?}", e),
    }
}

fn lock_ctl() -> std::sync::MutexGuard<'static, Option<Ctl>> {
    CTL.lock().unwrap_or_else(|e| e.into_inner())
}

fn install_hook() {
    crate::verif_hooks::set_write_hook(Some(Arc::new(|site| {
        let actor = ACTOR.with(|a| a.get());
        if actor == usize::MAX {
            return;
        }
        let observe = lock_ctl().as_ref().map(|c| c.observe && actor == c.park_actor).unwrap_or(false);
        if observe {
            // the state between two writes of A is a state a reader may legitimately see
            let ans = READER_RPC.with(|r| r.borrow().as_ref().map(reader_query));
            if let (Some(c), Some(a)) = (lock_ctl().as_mut(), ans) {
                c.observed.push(a);
            }
        }
        let mut g = lock_ctl();
        let c = match g.as_mut() {
            Some(c) => c,
            None => return,
        };
        let n = c.counts[actor];
        c.counts[actor] += 1;
        c.events += 1;
        c.sites.push((actor, site));
        if actor == c.park_actor && Some(n) == c.park_at {
            c.parked = true;
            CV.notify_all();
            while !g.as_ref().map(|c| c.released).unwrap_or(true) {
                g = CV.wait(g).unwrap_or_else(|e| e.into_inner());
            }
        }
    })));
}

fn exec(piece: &mut Piece, op: &Prepared, shared: &Arc<Shared>) {
    match (piece, op) {
        (Piece::Rpc(rpc), Prepared::Rpc { cmd, list, .. }) => {
            let command = match cmd % 3 {
                0 => SetScriptsCommand::All,
                1 => SetScriptsCommand::Partial,
                _ => SetScriptsCommand::Delete,
            };
            let l: Vec<ScriptStatus> = list.iter().map(|(r, _)| r.rpc_status()).collect();
            rpc.set_scripts(l, Some(command)).expect("set_scripts");
        }
        (piece, Prepared::Msgs { proto, peer, data, .. }) => {
            for d in data {
                let nc = ctx(shared, proto.clone());
                match piece {
                    Piece::Lc(h) => futures::executor::block_on(h.received(nc, *peer, d.clone())),
                    Piece::Filter(h) => futures::executor::block_on(h.received(nc, *peer, d.clone())),
                    Piece::Sync(h) => futures::executor::block_on(h.received(nc, *peer, d.clone())),
                    Piece::Rpc(_) => unreachable!(),
                }
            }
        }
        (piece, Prepared::Tick { proto, token, .. }) => {
            let nc = ctx(shared, proto.clone());
            match piece {
                Piece::Lc(h) => futures::executor::block_on(h.notify(nc, *token)),
                Piece::Filter(h) => {
                    if *token == 0 {
                        *h.last_ask_time.write().unwrap() = None;
                    }
                    futures::executor::block_on(h.notify(nc, *token))
                }
                _ => unreachable!(),
            }
        }
        _ => unreachable!(),
    }
}

fn spawn_op(piece: Piece, op: Prepared, shared: Arc<Shared>, seed: u64) -> std::thread::JoinHandle<(Piece, Option<String>)> {
    spawn_op_with(piece, op, shared, seed, None)
}

fn spawn_op_with(mut piece: Piece, op: Prepared, shared: Arc<Shared>, seed: u64, observer: Option<BlockFilterRpcImpl>) -> std::thread::JoinHandle<(Piece, Option<String>)> {
    std::thread::spawn(move || {
        let actor = op.actor();
        ACTOR.with(|a| a.set(actor));
        READER_RPC.with(|r| *r.borrow_mut() = observer);
        crate::verif_hooks::set_rng_seed(Some(seed));
        let r = std::panic::catch_unwind(std::panic::AssertUnwindSafe(|| exec(&mut piece, &op, &shared)));
        let msg = r.err().map(|p| p.downcast_ref::<String>().cloned().or_else(|| p.downcast_ref::<&str>().map(|s| s.to_string())).unwrap_or_else(|| "panic".into()));
        {
            let mut g = lock_ctl();
            if let Some(c) = g.as_mut() {
                c.done[actor] = true;
                c.events += 1;
            }
            CV.notify_all();
        }
        (piece, msg)
    })
}

#[derive(Clone, PartialEq, Eq, Debug)]
struct StateSig {
    store: Vec<(Vec<u8>, Vec<u8>)>,
    mem: Vec<(H256, bool, bool)>,
}

fn state_of(w: &World) -> StateSig {
    let mut mem: Vec<(H256, bool, bool)> = crate::lcv::sim::world::matched_blocks_keys(w).into_iter().map(|(k, v)| (k, v.0, v.1)).collect();
    mem.sort();
    StateSig { store: w.store_dump(), mem }
}

fn diff(a: &StateSig, b: &StateSig) -> String {
    let ma: BTreeMap<_, _> = a.store.iter().cloned().collect();
    let mb: BTreeMap<_, _> = b.store.iter().cloned().collect();
    let mut out = vec![];
    for (k, v) in &ma {
        match mb.get(k) {
            None => out.push(format!("-{}", key_name(k))),
            Some(v2) if v2 != v => out.push(format!("~{} ({} vs {})", key_name(k), short(v), short(v2))),
            _ => {}
        }
    }
    for k in mb.keys() {
        if !ma.contains_key(k) {
            out.push(format!("+{}", key_name(k)));
        }
    }
    if a.mem != b.mem {
        out.push(format!("memory matched blocks {} vs {}", a.mem.len(), b.mem.len()));
    }
    out.truncate(6);
    out.join(", ")
}

fn short(v: &[u8]) -> String {
    let h: String = v.iter().take(12).map(|b| format!("{:02x}", b)).collect();
    format!("{}{}", h, if v.len() > 12 { ".." } else { "" })
}

fn key_name(k: &[u8]) -> String {
    // Key::Meta keys are readable ASCII after the prefix byte
    let ascii: String = k.iter().skip(1).take_while(|b| b.is_ascii_graphic()).map(|b| *b as char).collect();
    if ascii.len() >= 6 {
        format!("meta:{}{}", ascii, if k.len() > ascii.len() + 1 { format!("+{}", short(&k[ascii.len() + 1..])) } else { String::new() })
    } else {
        format!("key[{:02x}]:{}", k[0], short(&k[1..]))
    }
}

// ---- world preparation ----

struct Prep {
    sim: Sim,
    a: Prepared,
    b: Prepared,
}

fn msg_name(m: &crate::lcv::sim::world::Msg) -> String {
    use ckb_types::{packed, prelude::*};
    let (proto, _, data) = m;
    if *proto == SupportProtocols::LightClient.protocol_id() {
        packed::LightClientMessage::from_slice(data).map(|m| m.to_enum().item_name().to_string()).unwrap_or_else(|_| "?".into())
    } else if *proto == SupportProtocols::Filter.protocol_id() {
        packed::BlockFilterMessage::from_slice(data).map(|m| m.to_enum().item_name().to_string()).unwrap_or_else(|_| "?".into())
    } else if *proto == SupportProtocols::Sync.protocol_id() {
        packed::SyncMessage::from_slice(data).map(|m| m.to_enum().item_name().to_string()).unwrap_or_else(|_| "?".into())
    } else {
        "?".into()
    }
}

fn actor_of(p: &SupportProtocols) -> Option<usize> {
    match p {
        SupportProtocols::LightClient => Some(LC),
        SupportProtocols::Filter => Some(FILTER),
        SupportProtocols::Sync => Some(SYNC),
        _ => None,
    }
}

fn prepare_sel(sim: &mut Sim, sel: &Sel, not_actor: Option<usize>) -> Option<Prepared> {
    match sel {
        Sel::SetScripts(cmd, specs) => {
            let (regs, _) = sim.model_after(*cmd, specs);
            Some(Prepared::Rpc { cmd: *cmd, list: regs.into_iter().map(|r| (r.clone(), r.start)).collect(), specs: specs.clone() })
        }
        Sel::Tick(t) => {
            let (actor, proto, token) = if *t < 3 { (LC, SupportProtocols::LightClient, *t as u64) } else { (FILTER, SupportProtocols::Filter, (*t - 3) as u64 % 3) };
            if Some(actor) == not_actor {
                return None;
            }
            Some(Prepared::Tick { actor, proto, token })
        }
        Sel::Reply(_) | Sel::ReplyKind(..) => {
            let (i, want) = match sel {
                Sel::Reply(i) => (i, None),
                Sel::ReplyKind(k, i) => (i, Some(["GetBlocks", "GetBlockFilters", "GetBlocksProof", "GetLastStateProof", "GetBlockFilterHashes", "GetBlockFilterCheckPoints"][*k as usize % 6])),
                _ => unreachable!(),
            };
            // candidates: in-flight requests whose honest reply is handled by another actor
            let n = sim.w.outbox_len();
            let mut cands = vec![];
            for j in 0..n {
                let msg = sim.w.shared.sent.lock().unwrap().get(j).cloned();
                if let Some(msg) = msg {
                    let replies = sim.w.honest_replies(&msg);
                    if let Some((proto, _)) = replies.first() {
                        if let Some(actor) = actor_of(proto) {
                            if Some(actor) != not_actor {
                                cands.push((j, actor, proto.clone(), msg.1, replies));
                            }
                        }
                    }
                }
            }
            if cands.is_empty() {
                return None;
            }
            if let Some(kind) = want {
                let of_kind: Vec<usize> = cands
                    .iter()
                    .enumerate()
                    .filter(|(_, c)| sim.w.shared.sent.lock().unwrap().get(c.0).map(|m| msg_name(m) == kind).unwrap_or(false))
                    .map(|(n, _)| n)
                    .collect();
                if !of_kind.is_empty() {
                    let keep = of_kind[idx(*i, of_kind.len())];
                    let c = cands.swap_remove(keep);
                    cands = vec![c];
                }
            }
            let (j, actor, proto, peer, replies) = cands.swap_remove(idx(*i, cands.len()));
            let req = sim.w.take_request(j).unwrap();
            let what = format!("reply-to:{}", msg_name(&req));
            let data: Vec<P2pBytes> = replies.into_iter().filter(|(p, _)| p.protocol_id() == proto.protocol_id()).map(|(_, d)| d).collect();
            Some(Prepared::Msgs { actor, proto, peer, data, what })
        }
    }
}

fn prepare(case: &Case) -> Option<Prep> {
    let chain = build_chain(&case.chain);
    let cfg = build_cfg(&case.net);
    let last_n = cfg.last_n;
    let mut sim = Sim::new(chain, cfg);
    crate::verif_hooks::set_rng_seed(Some(case.chain.seed ^ 0xc17));
    sim.set_scripts(0, &case.initial);
    sim.connect_quorum();
    for op in &case.prefix {
        match op {
            Op::S(Step::Restart) => {}
            _ => crate::lcv::props::c08::apply(&mut sim, op, last_n),
        }
        if ended_by_ban(&sim.w).is_some() {
            return None;
        }
    }
    // drive the sync on (one delivery at a time) until a request of the wanted kind is in flight
    if let Sel::ReplyKind(k, _) = &case.a {
        let kind = ["GetBlocks", "GetBlockFilters", "GetBlocksProof", "GetLastStateProof", "GetBlockFilterHashes", "GetBlockFilterCheckPoints"][*k as usize % 6];
        for round in 0..120 {
            let present = sim.w.shared.sent.lock().unwrap().iter().any(|m| msg_name(m) == kind);
            if present {
                break;
            }
            if sim.w.outbox_len() == 0 {
                if round % 3 == 2 {
                    let main = sim.main;
                    sim.w.grow(main, 1);
                }
                sim.w.tick_all();
                sim.w.advance(200);
            } else {
                sim.step(&Step::Deliver(0));
            }
            if ended_by_ban(&sim.w).is_some() {
                return None;
            }
        }
    }
    if sim.w.outbox_len() == 0 {
        // nothing in flight: the chain moves on and the timers fire
        let main = sim.main;
        sim.w.grow(main, 1);
        sim.w.tick_all();
        if ended_by_ban(&sim.w).is_some() {
            return None;
        }
    }
    // when the selected kind of operation is not available in this state, fall back to a set_scripts call
    let fallback = Sel::SetScripts(1, case.initial.clone());
    let a = match prepare_sel(&mut sim, &case.a, None) {
        Some(a) => a,
        None => prepare_sel(&mut sim, &fallback, None)?,
    };
    let not = if a.actor() == RPC { None } else { Some(a.actor()) };
    let b = match prepare_sel(&mut sim, &case.b, not) {
        Some(b) => b,
        None => prepare_sel(&mut sim, &fallback, not)?,
    };
    if a.actor() == b.actor() && a.actor() != RPC {
        return None;
    }
    Some(Prep { sim, a, b })
}

#[derive(Debug, Clone, Copy, PartialEq)]
enum Mode {
    SerialAB,
    SerialBA,
    /// A parks before its k-th write, B runs, A is released
    ParkA(u64),
}

struct RunOut {
    sim: Sim,
    a: Prepared,
    b: Prepared,
    state: StateSig,
    writes_a: u64,
    sites_a: Vec<&'static str>,
    b_done_while_parked: bool,
    a_parked: bool,
    panics: Vec<String>,
}

fn take_piece(parts: &mut Parts, actor: usize) -> Piece {
    match actor {
        LC => Piece::Lc(parts.lc.take().unwrap()),
        FILTER => Piece::Filter(parts.filter.take().unwrap()),
        SYNC => Piece::Sync(parts.sync.take().unwrap()),
        _ => Piece::Rpc(BlockFilterRpcImpl { swc: crate::storage::StorageWithChainData::new(parts.storage.clone(), Arc::clone(&parts.peers), Arc::clone(&parts.pending_txs)) }),
    }
}

struct Parts {
    storage: crate::storage::Storage,
    peers: Arc<crate::protocols::Peers>,
    lc: Option<LightClientProtocol>,
    filter: Option<FilterProtocol>,
    sync: Option<SyncProtocol>,
    relay: Option<crate::protocols::RelayProtocol>,
    pending_txs: Arc<std::sync::RwLock<crate::protocols::PendingTxs>>,
}

fn put_back(parts: &mut Parts, p: Piece) {
    match p {
        Piece::Lc(h) => parts.lc = Some(h),
        Piece::Filter(h) => parts.filter = Some(h),
        Piece::Sync(h) => parts.sync = Some(h),
        Piece::Rpc(_) => {}
    }
}

/// Waits until `cond(ctl)`; Err(()) when nothing at all happened for `quiet` (deadlock watchdog: any write or
/// completion restarts it, so a slow but progressing run is never flagged).
fn wait_until<F: Fn(&Ctl) -> bool>(cond: F, quiet: Duration, give_up_after: Option<Duration>) -> Result<bool, ()> {
    let mut g = lock_ctl();
    let start = Instant::now();
    let mut last_events = g.as_ref().map(|c| c.events).unwrap_or(0);
    let mut last_change = Instant::now();
    loop {
        if cond(g.as_ref().unwrap()) {
            return Ok(true);
        }
        if let Some(d) = give_up_after {
            if start.elapsed() >= d {
                return Ok(false);
            }
        }
        let (g2, _) = CV.wait_timeout(g, Duration::from_millis(5)).unwrap_or_else(|e| e.into_inner());
        g = g2;
        let ev = g.as_ref().map(|c| c.events).unwrap_or(0);
        if ev != last_events {
            last_events = ev;
            last_change = Instant::now();
        } else if last_change.elapsed() >= quiet {
            return Err(());
        }
    }
}

fn run_mode(prep: Prep, mode: Mode, seed: u64) -> Result<RunOut, Failure> {
    let Prep { mut sim, a, b } = prep;
    let shared = Arc::clone(&sim.w.shared);
    let client = sim.w.client.take().unwrap();
    let Client { storage, peers, lc, filter, sync, relay, pending_txs } = client;
    let mut parts = Parts { storage, peers, lc: Some(lc), filter: Some(filter), sync: Some(sync), relay: Some(relay), pending_txs };
    let (aa, ba) = (a.actor(), b.actor());
    // two RPC calls: give the second its own slot
    let b_slot = if aa == RPC && ba == RPC { 3 } else { ba };
    let b = match (&b, b_slot != ba) {
        (Prepared::Rpc { .. }, true) => b.clone(),
        _ => b,
    };
    *lock_ctl() = Some(Ctl { park_actor: aa, park_at: if let Mode::ParkA(k) = mode { Some(k) } else { None }, ..Default::default() });
    install_hook();
    let mut panics = vec![];
    let mut b_done_while_parked = false;
    let mut a_parked = false;
    let deadlock = |what: &str| Failure::new("deadlock", format!("{}: no write and no completion for 30 s (A = {}, B = {})", what, a.describe(), b.describe()));
    let quiet = Duration::from_secs(30);
    // B of two RPC calls counts its writes under slot 3 (sync never runs then)
    let spawn_b = |parts: &mut Parts| -> std::thread::JoinHandle<(Piece, Option<String>)> {
        let piece = take_piece(parts, ba);
        let shared = Arc::clone(&shared);
        let op = b.clone();
        std::thread::spawn(move || {
            let mut piece = piece;
            ACTOR.with(|x| x.set(b_slot));
            crate::verif_hooks::set_rng_seed(Some(seed ^ 0xb));
            let r = std::panic::catch_unwind(std::panic::AssertUnwindSafe(|| exec(&mut piece, &op, &shared)));
            let msg = r.err().map(|p| p.downcast_ref::<String>().cloned().or_else(|| p.downcast_ref::<&str>().map(|s| s.to_string())).unwrap_or_else(|| "panic".into()));
            {
                let mut g = lock_ctl();
                if let Some(c) = g.as_mut() {
                    c.done[b_slot] = true;
                    c.events += 1;
                }
                CV.notify_all();
            }
            (piece, msg)
        })
    };
    let result: Result<(), Failure> = (|| {
        match mode {
            Mode::SerialAB | Mode::SerialBA => {
                for first in [true, false] {
                    let run_a = (mode == Mode::SerialAB) == first;
                    let h = if run_a { spawn_op(take_piece(&mut parts, aa), a.clone(), Arc::clone(&shared), seed ^ 0xa) } else { spawn_b(&mut parts) };
                    let slot = if run_a { aa } else { b_slot };
                    wait_until(|c| c.done[slot], quiet, None).map_err(|_| deadlock("serial run"))?;
                    let (piece, msg) = h.join().map_err(|_| Failure::new("harness/join", "thread join failed"))?;
                    put_back(&mut parts, piece);
                    if let Some(m) = msg {
                        panics.push(m);
                    }
                }
                Ok(())
            }
            Mode::ParkA(_) => {
                let ha = spawn_op(take_piece(&mut parts, aa), a.clone(), Arc::clone(&shared), seed ^ 0xa);
                wait_until(|c| c.parked || c.done[aa], quiet, None).map_err(|_| deadlock("A before its park point"))?;
                a_parked = lock_ctl().as_ref().map(|c| c.parked).unwrap_or(false);
                let hb = spawn_b(&mut parts);
                // B either finishes or blocks on a lock A holds; blocking is not an event, so only wait briefly
                b_done_while_parked = a_parked && wait_until(|c| c.done[b_slot], Duration::from_secs(3600), Some(Duration::from_millis(40))).unwrap_or(false);
                {
                    let mut g = lock_ctl();
                    if let Some(c) = g.as_mut() {
                        c.released = true;
                        c.events += 1;
                    }
                    CV.notify_all();
                }
                wait_until(|c| c.done[aa] && c.done[b_slot], quiet, None).map_err(|_| deadlock("after A was released"))?;
                for h in [ha, hb] {
                    let (piece, msg) = h.join().map_err(|_| Failure::new("harness/join", "thread join failed"))?;
                    put_back(&mut parts, piece);
                    if let Some(m) = msg {
                        panics.push(m);
                    }
                }
                Ok(())
            }
        }
    })();
    crate::verif_hooks::set_write_hook(None);
    let ctl = lock_ctl().take().unwrap();
    result?;
    sim.w.client = Some(Client {
        storage: parts.storage,
        peers: parts.peers,
        lc: parts.lc.take().unwrap(),
        filter: parts.filter.take().unwrap(),
        sync: parts.sync.take().unwrap(),
        relay: parts.relay.take().unwrap(),
        pending_txs: parts.pending_txs,
    });
    let state = state_of(&sim.w);
    Ok(RunOut {
        sim,
        a,
        b,
        state,
        writes_a: ctl.counts[aa],
        sites_a: ctl.sites.iter().filter(|(x, _)| *x == aa).map(|(_, s)| *s).collect(),
        b_done_while_parked,
        a_parked,
        panics,
    })
}

fn script_keys(st: &StateSig) -> Vec<Vec<u8>> {
    st.store.iter().filter(|(k, _)| key_name(k).starts_with("meta:FILTER_SCRIPTS")).map(|(k, _)| k.clone()).collect()
}

/// Err(description) when the concurrent outcome is harmful: a script set no serial order produces, or a sync that
/// does not converge to the reference index.
fn consequences(out: &mut RunOut, ab: &RunOut, ba: &RunOut) -> Result<(), String> {
    let keys = script_keys(&out.state);
    let order_ab = if keys == script_keys(&ab.state) {
        true
    } else if keys == script_keys(&ba.state) {
        false
    } else {
        return Err("the script set is the one of neither serial order".into());
    };
    // the model of the registered scripts after the serial order that gives this script set
    let ops: Vec<Prepared> = if order_ab { vec![out.a.clone(), out.b.clone()] } else { vec![out.b.clone(), out.a.clone()] };
    for op in ops {
        if let Prepared::Rpc { cmd, specs, .. } = op {
            let (_, model) = out.sim.model_after(cmd, &specs);
            out.sim.regs = model;
        }
    }
    let r = std::panic::catch_unwind(std::panic::AssertUnwindSafe(|| -> Result<(), Failure> {
        out.sim.finish()?;
        out.sim.compare_all()
    }));
    match r {
        Err(_) => {
            let (msg, _) = take_last_panic().unwrap_or_default();
            if msg.contains("long fork detected") || msg.contains("pump livelock") {
                Ok(())
            } else {
                Err(format!("the client panics afterwards: {}", msg))
            }
        }
        Ok(Err(f)) if f.signature.starts_with("honest-peer-") => Ok(()),
        Ok(Err(f)) => Err(format!("the sync afterwards ends in {}: {}", f.signature, f.message.chars().take(300).collect::<String>())),
        Ok(Ok(())) => Ok(()),
    }
}

fn consequences_of_serial(run: &mut RunOut, order_ab: bool) -> Result<(), String> {
    let ops: Vec<Prepared> = if order_ab { vec![run.a.clone(), run.b.clone()] } else { vec![run.b.clone(), run.a.clone()] };
    for op in ops {
        if let Prepared::Rpc { cmd, specs, .. } = op {
            let (_, model) = run.sim.model_after(cmd, &specs);
            run.sim.regs = model;
        }
    }
    let r = std::panic::catch_unwind(std::panic::AssertUnwindSafe(|| -> Result<(), Failure> {
        run.sim.finish()?;
        run.sim.compare_all()
    }));
    match r {
        Ok(Ok(())) => Ok(()),
        Ok(Err(f)) => Err(f.signature),
        Err(_) => Err("panic".into()),
    }
}

fn rpc_of(parts: &Parts) -> BlockFilterRpcImpl {
    BlockFilterRpcImpl { swc: crate::storage::StorageWithChainData::new(parts.storage.clone(), Arc::clone(&parts.peers), Arc::clone(&parts.pending_txs)) }
}

/// Reader check for an operation A with several writes (a proof that rolls back and then moves the tip).
/// `observe = true`: A runs alone and the reader's query is evaluated before each of its writes and after it (the
/// answers a reader may see). `observe = false`: A parks before its first write, a reader thread loops the query, A is
/// released and does all its writes while the reader runs. Returns the answers.
fn reader_run(prep: Prep, seed: u64, observe: bool) -> Result<Vec<String>, Failure> {
    let Prep { mut sim, a, b: _ } = prep;
    let shared = Arc::clone(&sim.w.shared);
    let client = sim.w.client.take().unwrap();
    let Client { storage, peers, lc, filter, sync, relay, pending_txs } = client;
    let mut parts = Parts { storage, peers, lc: Some(lc), filter: Some(filter), sync: Some(sync), relay: Some(relay), pending_txs };
    let aa = a.actor();
    *lock_ctl() = Some(Ctl { park_actor: aa, park_at: if observe { None } else { Some(0) }, observe, ..Default::default() });
    install_hook();
    let quiet = Duration::from_secs(30);
    let mut answers: Vec<String> = vec![];
    let r: Result<(), Failure> = (|| {
        let dead = || Failure::new("deadlock", format!("reader check: no progress for 30 s (A = {})", a.describe()));
        if observe {
            let h = spawn_op_with(take_piece(&mut parts, aa), a.clone(), Arc::clone(&shared), seed ^ 0xa, Some(rpc_of(&parts)));
            wait_until(|c| c.done[aa], quiet, None).map_err(|_| dead())?;
            let (piece, _) = h.join().map_err(|_| Failure::new("harness/join", "thread join failed"))?;
            put_back(&mut parts, piece);
            answers = lock_ctl().as_ref().map(|c| c.observed.clone()).unwrap_or_default();
            answers.push(reader_query(&rpc_of(&parts)));
            return Ok(());
        }
        let h = spawn_op(take_piece(&mut parts, aa), a.clone(), Arc::clone(&shared), seed ^ 0xa);
        wait_until(|c| c.parked || c.done[aa], quiet, None).map_err(|_| dead())?;
        let stop = Arc::new(std::sync::atomic::AtomicBool::new(false));
        let count = Arc::new(std::sync::atomic::AtomicU64::new(0));
        let rpc = rpc_of(&parts);
        let (stop2, count2) = (Arc::clone(&stop), Arc::clone(&count));
        let reader = std::thread::spawn(move || {
            let mut seen: Vec<String> = vec![];
            while !stop2.load(std::sync::atomic::Ordering::SeqCst) {
                let a = reader_query(&rpc);
                if seen.last() != Some(&a) && !seen.contains(&a) {
                    seen.push(a);
                }
                count2.fetch_add(1, std::sync::atomic::Ordering::SeqCst);
            }
            seen
        });
        // let the reader get going, then release A in the middle of the reader's work
        let t0 = Instant::now();
        while count.load(std::sync::atomic::Ordering::SeqCst) < 5 && t0.elapsed() < Duration::from_secs(5) {
            std::thread::yield_now();
        }
        {
            let mut g = lock_ctl();
            if let Some(c) = g.as_mut() {
                c.released = true;
                c.events += 1;
            }
            CV.notify_all();
        }
        wait_until(|c| c.done[aa], quiet, None).map_err(|_| dead())?;
        let after = count.load(std::sync::atomic::Ordering::SeqCst);
        let t1 = Instant::now();
        while count.load(std::sync::atomic::Ordering::SeqCst) < after + 3 && t1.elapsed() < Duration::from_secs(5) {
            std::thread::yield_now();
        }
        stop.store(true, std::sync::atomic::Ordering::SeqCst);
        answers = reader.join().map_err(|_| Failure::new("reader/panicked", "the reader thread panicked"))?;
        let (piece, _) = h.join().map_err(|_| Failure::new("harness/join", "thread join failed"))?;
        put_back(&mut parts, piece);
        Ok(())
    })();
    crate::verif_hooks::set_write_hook(None);
    *lock_ctl() = None;
    r?;
    Ok(answers)
}

fn long_fork(p: &[String]) -> bool {
    p.iter().any(|m| m.contains("long fork detected"))
}

impl Property for C17 {
    type Case = Case;
    const ID: &'static str = "C17";

    fn cases(tier: Tier) -> u32 {
        match tier {
            Tier::Quick => 5000,
            Tier::Thorough => 30_000,
        }
    }

    fn rule() -> &'static str {
        "cases: a generated mid-sync world (set_scripts, partial deliveries, ticks, growth, fork switches; requests in flight) x an ordered pair of operations that run on different threads in the client \
         (A, B from: set_scripts all / partial / delete on an RPC thread; the honest reply to an in-flight request handled by the light-client / filter / sync protocol: BlockFilters, BlockFilterHashes, CheckPoints, SendBlock, SendBlocksProof, SendLastStateProof with or without a rollback; protocol timers) \
         x EVERY storage write k of A: A runs on thread 1 until it is about to do write k and parks, B runs on thread 2 (finishes or blocks), A is released, both joined. \
         Oracle: final store (all keys) and in-memory matched blocks equal the serial run A;B or B;A on an identical world; no deadlock (30 s without any write or completion). \
         non-trivial: A parked strictly inside its write sequence (k >= 1) and B writes too; distinct by (kind of A, kind of B, write site, whether B finished while A was parked)"
    }

    fn strategy(tier: Tier) -> BoxedStrategy<Case> {
        let maxlen = match tier {
            Tier::Quick => 60u16,
            Tier::Thorough => 200u16,
        };
        // mostly single deliveries: the world must be mid-sync with requests in flight
        let op = prop_oneof![
            30 => any::<u16>().prop_map(|i| Op::S(Step::Deliver(i))),
            6 => (0u8..6).prop_map(|t| Op::S(Step::Tick(t))),
            2 => (1u8..6).prop_map(|n| Op::S(Step::Drain(n))),
            2 => (1u8..8).prop_map(|n| Op::S(Step::Grow(n))),
            1 => (1u16..2000).prop_map(|n| Op::S(Step::Advance(n))),
            2 => (0u8..3, prop::collection::vec(reg_spec(), 1..3)).prop_map(|(c, r)| Op::S(Step::SetScripts(c, r))),
            2 => (any::<u8>(), any::<u8>(), any::<u64>()).prop_map(|(depth, extra, seed)| Op::Switch { depth, extra, seed }),
        ];
        let sel = || {
            prop_oneof![
                4 => any::<u16>().prop_map(Sel::Reply),
                8 => (0u8..6, any::<u16>()).prop_map(|(k, i)| Sel::ReplyKind(k, i)),
                3 => (0u8..3, prop::collection::vec(reg_spec(), 1..3)).prop_map(|(c, r)| Sel::SetScripts(c, r)),
                1 => (0u8..6).prop_map(Sel::Tick),
            ]
        };
        (chain_params(maxlen), net_params(), prop::collection::vec(reg_spec(), 1..3), prop::collection::vec(op, 4..70), sel(), sel())
            .prop_map(|(mut chain, mut net, initial, prefix, a, b)| {
                chain.density = chain.density.max(60);
                chain.len = chain.len.max(12);
                net.last_n %= 4;
                net.interval = 2 + net.interval % 2;
                // a single peer: the three runs compared must be the same function of the case (see C08)
                net.max_outbound = 1;
                Case { chain, net, initial, prefix, a, b }
            })
            .boxed()
    }

    fn run(case: &Case, obs: &mut Obs) -> Result<(), Failure> {
        let seed = case.chain.seed;
        let reset = || crate::verif_hooks::set_rng_seed(None);
        let p = match prepare(case) {
            Some(p) => p,
            None => {
                reset();
                obs.label("no-concurrent-pair");
                return Ok(());
            }
        };
        let (da, db) = (p.a.describe(), p.b.describe());
        let (ka, kb) = (format!("{}:{}", ACTOR_NAMES[p.a.actor()], da), format!("{}:{}", ACTOR_NAMES[p.b.actor()], db));
        obs.label(format!("A={}", ka));
        obs.label(format!("B={}", kb));
        let ab = run_mode(p, Mode::SerialAB, seed).map_err(|f| {
            reset();
            f
        })?;
        let ba = run_mode(prepare(case).unwrap(), Mode::SerialBA, seed).map_err(|f| {
            reset();
            f
        })?;
        if long_fork(&ab.panics) || long_fork(&ba.panics) {
            reset();
            obs.label("serial-run-ends-in-long-fork-abort(C04)");
            return Ok(());
        }
        if !ab.panics.is_empty() || !ba.panics.is_empty() {
            reset();
            obs.label(format!("serial-run-panics:{:?}", ab.panics.iter().chain(ba.panics.iter()).next()));
            return Ok(());
        }
        obs.note("writes_of_A", json!(ab.writes_a));
        if ab.state == ba.state {
            obs.label("orders-commute");
        }
        let mut serial_conv: Option<bool> = None;
        let (mut ab, mut ba) = (ab, ba);
        for k in 0..ab.writes_a {
            let out = run_mode(prepare(case).unwrap(), Mode::ParkA(k), seed).map_err(|f| {
                reset();
                f
            })?;
            let site = ab.sites_a.get(k as usize).copied().unwrap_or("?");
            if long_fork(&out.panics) {
                obs.label("concurrent-run-ends-in-long-fork-abort(C04)");
                continue;
            }
            if let Some(m) = out.panics.first() {
                reset();
                return Err(Failure::new(format!("panic-in-concurrent-run/{}", crate::lcv::props::c14::norm_panic(m, "")), format!("A = {} parked before write {} ({}), B = {}: {}", da, k, site, db, m)));
            }
            if !out.a_parked {
                obs.label("park-point-not-reached");
                continue;
            }
            obs.label(if out.b_done_while_parked { "B-finished-while-A-parked" } else { "B-blocked-until-A-released" });
            if out.state != ab.state && out.state != ba.state {
                // Not every handler is one critical section by design (the tip update of a proof follows the rollback outside
                // the lock), so a state that equals neither serial order is judged by its consequences: the script set must be
                // the one of a serial order and the sync must converge to the reference index (as in C08).
                let mut out = out;
                let verdict = consequences(&mut out, &ab, &ba);
                reset();
                if verdict.is_ok() {
                    obs.label(format!("differs-from-both-serial-orders-but-converges(parked-before-{})", site));
                    continue;
                }
                let consequence = verdict.err().unwrap();
                // the same trouble after a serial order is not a concurrency matter (known findings of C03 / C04 / C05)
                if serial_conv.is_none() {
                    let ra = consequences_of_serial(&mut ab, true);
                    let rb = consequences_of_serial(&mut ba, false);
                    serial_conv = Some(ra.is_ok() && rb.is_ok());
                }
                if serial_conv == Some(false) {
                    obs.label("serial-order-does-not-converge-either");
                    continue;
                }
                let kind_a = da.split('(').next().unwrap_or("").to_string();
                let kind_b = db.split('(').next().unwrap_or("").to_string();
                return tolerate(
                    obs,
                    Failure::new(
                        format!("not-serializable/{}||{}/parked-before-{}", kind_a, kind_b, site),
                        format!(
                            "A = {} parked before its write {} of {} ({}), B = {} {}: the final state equals neither serial order and {}; vs A;B: [{}]; vs B;A: [{}]",
                            da,
                            k,
                            ab.writes_a,
                            site,
                            db,
                            if out.b_done_while_parked { "finished while A was parked" } else { "finished after A was released" },
                            consequence,
                            diff(&out.state, &ab.state),
                            diff(&out.state, &ba.state)
                        ),
                    ),
                );
            }
            if k >= 1 {
                obs.nontrivial((da.split('(').next().unwrap_or("").to_string(), db.split('(').next().unwrap_or("").to_string(), site, out.b_done_while_parked));
            }
        }
        // (3) readers: while a proof rolls back and then moves the tip (two writes), a looping get_cells_capacity must only see
        // (capacity, tip) pairs that exist right before / between / after the writes
        if ab.writes_a >= 2 && ka.contains("reply-to:GetLastStateProof") {
            let valid = reader_run(prepare(case).unwrap(), seed, true).map_err(|f| {
                reset();
                f
            })?;
            let distinct: std::collections::BTreeSet<&String> = valid.iter().collect();
            if distinct.len() >= 3 {
                obs.label("reader-check:rollback-and-tip-update-change-the-answer");
                for trial in 0..12u64 {
                    let seen = reader_run(prepare(case).unwrap(), seed ^ trial, false).map_err(|f| {
                        reset();
                        f
                    })?;
                    if let Some(bad) = seen.iter().find(|a| !valid.contains(a)) {
                        reset();
                        return Err(Failure::new("reader-saw-a-state-that-never-existed", format!("get_cells_capacity returned {} while A = {} ran; states at A's write boundaries: {:?}", bad, da, valid)));
                    }
                    if seen.len() >= 2 {
                        obs.nontrivial(("reader", seen.len().min(3)));
                    }
                }
            }
        }
        reset();
        Ok(())
    }

    fn max_shrink_iters() -> u32 {
        120
    }
}
