//! C15 — every proof request the client builds is well-formed and samples enough.
//! Drives the real `build_prove_request_content(_from_genesis)` on a real `LightClientProtocol`
//! with generated storage state and peer prove state; the FlyClient bound is recomputed by the oracle.

use std::panic::{catch_unwind, AssertUnwindSafe};
use std::sync::Arc;

use ckb_chain_spec::consensus::ConsensusBuilder;
use ckb_network::PeerIndex;
use ckb_types::{
    core::{BlockBuilder, HeaderBuilder, HeaderView},
    packed,
    prelude::*,
    utilities::{compact_to_difficulty, difficulty_to_compact, merkle_mountain_range::VerifiableHeader},
    U256,
};
use proptest::prelude::*;
use serde::{Deserialize, Serialize};
use serde_json::json;

use crate::lcv::pbt::*;
use crate::lcv::props::c14::norm_panic;
use crate::protocols::{LightClientProtocol, Peers};
use crate::storage::Storage;

#[derive(Debug, Clone, Serialize, Deserialize)]
pub struct Case {
    /// proven / stored start number
    pub s: u64,
    /// gap l - s (>= 1 normally; 0 exercises the `None` branch)
    pub gap: u64,
    pub last_n: u64,
    /// log2-ish scale of start total difficulty and of the difference
    pub start_td_bits: u16,
    pub td_gap_bits: u16,
    /// 0: difference >= gap (plausible); 1: smaller than gap (adversarial); 2: equal totals; 3: last < start
    pub td_class: u8,
    pub with_prove_state: bool,
    /// storage tip differs from the peer's proven header
    pub storage_differs: bool,
    /// number of stored last-N headers below the stored tip
    pub stored_last_n: u16,
    pub from_genesis: bool,
    pub seed: u64,
}

pub struct C15;

fn pow2(bits: u16) -> U256 {
    let mut v = U256::one();
    for _ in 0..bits.min(250) {
        v = &v * 2u32;
    }
    v
}

fn rand_u256_below(r: &mut Prng, bound: &U256) -> U256 {
    let raw = U256([r.next(), r.next(), r.next(), r.next()]);
    if bound.is_zero() {
        U256::zero()
    } else {
        &raw % bound
    }
}

fn header(number: u64, salt: u64, compact: u32) -> HeaderView {
    HeaderBuilder::default()
        .number(number.pack())
        .nonce((salt as u128).pack())
        .compact_target(compact.pack())
        .build()
}

/// A verifiable header with the given number whose `total_difficulty()` is exactly `td` (td >= block difficulty).
fn vheader(number: u64, td: &U256, salt: u64) -> VerifiableHeader {
    let compact = difficulty_to_compact(U256::one());
    let d = compact_to_difficulty(compact);
    let parent_td = if td >= &d { td - &d } else { U256::zero() };
    let root = packed::HeaderDigest::new_builder().total_difficulty(parent_td.pack()).build();
    VerifiableHeader::new(header(number, salt, compact), Default::default(), None, root)
}

impl Property for C15 {
    type Case = Case;
    const ID: &'static str = "C15";

    fn cases(tier: Tier) -> u32 {
        match tier {
            Tier::Quick => 40_000,
            Tier::Thorough => 1_500_000,
        }
    }

    fn rule() -> &'static str {
        "cases: (start number, gap, last_n, total-difficulty scales and class, with/without prove state, storage tip equal/different, stored last-N length, from-genesis) \
         driving the real build_prove_request_content on a real store; non-trivial: the sampling branch is taken (gap > last_n) and a request is produced; \
         distinct by (gap class, td class, last_n, with/without proof, from_genesis, td scale bucket)"
    }

    fn strategy(_tier: Tier) -> BoxedStrategy<Case> {
        let last_n = prop_oneof![Just(1u64), Just(2), Just(3), Just(10), Just(100), Just(1000)];
        let s = prop_oneof![Just(0u64), Just(1), Just(2), 0u64..5000, Just(1 << 40), Just((1u64 << 62) - 7)];
        (
            s,
            last_n,
            0u8..12,
            any::<u32>(),
            0u16..250,
            0u16..250,
            prop_oneof![8 => Just(0u8), 2 => Just(1u8), 1 => Just(2u8), 1 => Just(3u8)],
            any::<bool>(),
            prop::bool::weighted(0.25),
            0u16..12,
            prop::bool::weighted(0.1),
            any::<u64>(),
        )
            .prop_map(|(s, last_n, gapc, gapr, sb, gb, td_class, wp, sd, stored, fg, seed)| {
                let gapr = gapr as u64;
                let gap = match gapc {
                    0 => 1,
                    1 => 2,
                    2 => last_n.saturating_sub(1).max(1),
                    3 => last_n,
                    4 => last_n + 1,
                    5 => 2 * last_n,
                    6 => 2 * last_n + 1,
                    7 => 1000 + gapr % 1000,
                    8 => 1_000_000 + gapr,
                    9 => (1u64 << 40) + gapr,
                    10 => 1u64 << 61,
                    _ => 1 + gapr % (4 * last_n + 4),
                };
                Case { s, gap, last_n, start_td_bits: sb, td_gap_bits: gb, td_class, with_prove_state: wp, storage_differs: sd, stored_last_n: stored, from_genesis: fg, seed }
            })
            .boxed()
    }

    fn run(case: &Case, obs: &mut Obs) -> Result<(), Failure> {
        let mut r = Prng::new(case.seed);
        let l = case.s.saturating_add(case.gap);
        let last_n = case.last_n;
        // total difficulties
        let start_td = if case.s == 0 { U256::zero() } else { pow2(case.start_td_bits) + U256::from(case.s) + rand_u256_below(&mut r, &pow2(case.start_td_bits)) };
        let gap_u = U256::from(case.gap);
        let td_gap = match case.td_class {
            0 => &gap_u + &rand_u256_below(&mut r, &pow2(case.td_gap_bits)) + pow2(case.td_gap_bits) - 1u32,
            1 => rand_u256_below(&mut r, &gap_u) + 1u32,
            2 => U256::zero(),
            _ => U256::zero(),
        };
        let last_td = if case.td_class == 3 {
            if start_td > U256::one() + 1u32 {
                &start_td - &(rand_u256_below(&mut r, &(&start_td - 2u32)) + 1u32)
            } else {
                start_td.clone()
            }
        } else {
            &start_td + &td_gap
        };
        if last_td < U256::from(2u32) {
            obs.label("degenerate-last-td(skipped)");
            return Ok(());
        }

        // world: one store per worker process, re-initialised per case through the public setters
        // (the functions under test read only LAST_STATE, LAST_N_HEADERS and the genesis block)
        thread_local! {
            static WORLD: std::cell::RefCell<Option<(tempfile::TempDir, Storage, ckb_chain_spec::consensus::Consensus)>> = std::cell::RefCell::new(None);
        }
        let (storage, consensus) = WORLD.with(|w| {
            let mut w = w.borrow_mut();
            if w.is_none() {
                let dir = tempfile::Builder::new().prefix("lcv15").tempdir_in(crate::lcv::tmp_root()).unwrap();
                let storage = Storage::new(dir.path());
                let consensus = ConsensusBuilder::default().build();
                storage.init_genesis_block(consensus.genesis_block().data());
                *w = Some((dir, storage, consensus));
            }
            let (_, s, c) = w.as_ref().unwrap();
            (s.clone(), c.clone())
        });
        let genesis = consensus.genesis_block().clone();
        storage.update_last_state(&U256::zero(), &genesis.header().data(), &[]);
        let peers = Arc::new(Peers::new(1, 2000, storage.get_last_check_point()));
        let mut protocol = LightClientProtocol::new(storage.clone(), Arc::clone(&peers), consensus);
        protocol.set_last_n_blocks(last_n);

        // stored tip + last-N headers
        let proven = if case.s == 0 { None } else { Some(vheader(case.s, &start_td, r.next())) };
        let (stored_number, stored_td, stored_tip) = if case.s == 0 {
            (0u64, U256::zero(), genesis.header())
        } else if case.storage_differs && case.with_prove_state {
            // the store holds another (heavier or lighter) tip near s
            let n = case.s.saturating_sub(r.below(3)) + r.below(3);
            let td = &start_td + r.below(5);
            (n.max(1), td.clone(), vheader(n.max(1), &td, r.next()).header().clone())
        } else {
            (case.s, start_td.clone(), proven.as_ref().unwrap().header().clone())
        };
        let stored_headers: Vec<HeaderView> = {
            let cnt = (case.stored_last_n as u64).min(stored_number).min(last_n);
            (stored_number - cnt..stored_number).map(|n| header(n, r.next(), 0x2001_0000)).collect()
        };
        if stored_number > 0 {
            storage.update_last_state(&stored_td, &stored_tip.data(), &stored_headers);
        }
        let peer = PeerIndex::new(1);
        peers.add_peer(peer);
        let use_prove_state = case.with_prove_state && case.s > 0;
        if use_prove_state {
            peers.mock_prove_state(peer, proven.clone().unwrap()).map_err(|e| Failure::new("harness/mock_prove_state", e.to_string()))?;
        } else {
            peers.request_last_state(peer).ok();
        }
        let last_header = vheader(l, &last_td, r.next());
        let peer_state = peers.get_state(&peer).unwrap();

        // effective start as the statement sees it
        let (eff_s, eff_td, eff_hash) = if case.from_genesis {
            (0u64, U256::zero(), genesis.hash())
        } else if use_prove_state {
            (case.s, start_td.clone(), proven.as_ref().unwrap().header().hash())
        } else {
            (stored_number, stored_td.clone(), stored_tip.hash())
        };

        crate::verif_hooks::set_rng_seed(Some(case.seed ^ 0x1234));
        crate::verif_hooks::take_rng_draws();
        let res = catch_unwind(AssertUnwindSafe(|| {
            if case.from_genesis {
                protocol.build_prove_request_content_from_genesis(&last_header)
            } else {
                protocol.build_prove_request_content(&peer_state, &last_header)
            }
        }));
        let draws = crate::verif_hooks::take_rng_draws();
        crate::verif_hooks::set_rng_seed(None);
        let desc = format!(
            "s={} l={} last_n={} start_td={:#x} last_td={:#x} prove_state={} from_genesis={} stored=({}, {:#x}, {} headers)",
            eff_s, l, last_n, eff_td, last_td, use_prove_state, case.from_genesis, stored_number, stored_td, stored_headers.len()
        );
        let req = match res {
            Err(_) => {
                let (m, loc) = take_last_panic().unwrap_or_default();
                return tolerate(obs, Failure::new(format!("panic/{}", norm_panic(&m, &loc)), desc));
            }
            Ok(r) => r,
        };
        let gap_class = if l <= eff_s { "none" } else if l - eff_s <= last_n { "within-last-n" } else if l - eff_s <= 2 * last_n { "le-2n" } else if l - eff_s < 100_000 { "mid" } else { "huge" };
        obs.label(format!("gap:{}", gap_class));
        obs.label(format!("td-class:{}", case.td_class));
        let req = match req {
            None => {
                // None only when s >= l or start total > last total
                if eff_s < l && eff_td <= last_td {
                    return Err(Failure::new("none-although-buildable", desc));
                }
                obs.label("none");
                return Ok(());
            }
            Some(r) => r,
        };
        if eff_s >= l || eff_td > last_td {
            return Err(Failure::new("request-although-start-not-below-last", desc));
        }
        let rq_start: u64 = req.start_number().unpack();
        let rq_boundary: U256 = req.difficulty_boundary().unpack();
        let rq_last_n: u64 = req.last_n_blocks().unpack();
        let diffs: Vec<U256> = req.difficulties().into_iter().map(|d| d.unpack()).collect();
        let fail = |sig: &str, extra: String| Err(Failure::new(sig, format!("{} :: start_number={} boundary={:#x} difficulties={} {}", desc, rq_start, rq_boundary, diffs.len(), extra)));
        if req.last_hash() != last_header.header().hash() {
            return fail("wrong-last-hash", String::new());
        }
        if rq_last_n != last_n {
            return fail("wrong-last-n", String::new());
        }
        if rq_start >= l {
            return fail("start-not-below-last", String::new());
        }
        if l - eff_s <= last_n {
            if !diffs.is_empty() {
                return fail("samples-in-last-n-branch", String::new());
            }
            if rq_start > eff_s {
                return fail("last-n-branch/start-above-proven-start", String::new());
            }
            if l > rq_start.saturating_add(last_n) {
                return fail("last-n-branch/not-all-missing-blocks-covered", String::new());
            }
            if rq_boundary > last_td {
                return fail("last-n-branch/boundary-above-last", String::new());
            }
            if rq_start == eff_s {
                if req.start_hash() != eff_hash {
                    return fail("last-n-branch/start-hash-mismatch", String::new());
                }
                if rq_boundary < eff_td {
                    return fail("last-n-branch/boundary-below-start", String::new());
                }
            } else {
                obs.label("rebased-start");
                if case.from_genesis || !stored_headers.iter().any(|h| h.number() == rq_start && h.hash() == req.start_hash()) {
                    return fail("last-n-branch/rebased-start-not-a-stored-header", String::new());
                }
            }
            Ok(())
        } else {
            if rq_start != eff_s || req.start_hash() != eff_hash {
                return fail("sampled-branch/start-changed", String::new());
            }
            let plausible = (&last_td - &eff_td) >= U256::from(l - eff_s);
            obs.label(if plausible { "sampled:plausible-td" } else { "sampled:adversarial-td" });
            if !plausible {
                // a last state that claims more blocks than difficulty cannot come from a valid chain:
                // labelled, not judged (DESIGN.md C15)
                if !(eff_td < rq_boundary && rq_boundary <= last_td) {
                    obs.label("adversarial-td:boundary-outside(start,last]");
                }
                return Ok(());
            }
            if !(eff_td < rq_boundary && rq_boundary <= last_td) {
                return fail("sampled-branch/boundary-outside(start,last]", String::new());
            }
            if diffs.windows(2).any(|w| w[0] >= w[1]) {
                return fail("sampled-branch/difficulties-not-strictly-increasing", String::new());
            }
            if diffs.is_empty() {
                return fail("sampled-branch/no-samples", String::new());
            }
            if !diffs.iter().all(|d| d < &rq_boundary) {
                return fail("sampled-branch/sample-not-below-boundary", String::new());
            }
            if !diffs.iter().all(|d| d > &eff_td) {
                let empty_interval = rq_boundary == &eff_td + 1u32;
                let f = Failure::new(
                    if empty_interval { "sampled-branch/sample-equals-start/empty-interval(boundary=start+1)" } else { "sampled-branch/sample-not-above-start" },
                    format!("{} boundary={:#x} first={:#x}", desc, rq_boundary, diffs[0]),
                );
                tolerate(obs, f)?;
            }
            // FlyClient bound recomputed
            let blocks = (l - eff_s) as f64;
            let k = ((last_n as f64) / blocks).ln() / (0.5f64).ln();
            let m: f64 = if k <= 1.0 { 1.0 } else { (50.0 / ((1.0 - 1.0 / k).ln() / (0.5f64).ln())).ceil() };
            let cap = (l - eff_s - last_n) as f64;
            let required = (m - last_n as f64).max(1.0).min(cap);
            obs.note("required_draws", json!(required));
            obs.note("draws", json!(draws));
            if (draws as f64) + 1.0 < required {
                return fail("sampled-branch/too-few-samples", format!("draws={} required={} k={} m={}", draws, required, k, m));
            }
            let td_scale = (case.td_gap_bits / 32) as u8;
            obs.nontrivial((gap_class, case.td_class, last_n, use_prove_state, case.from_genesis, td_scale));
            Ok(())
        }
    }
}
