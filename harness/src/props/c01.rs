//! C01 — trusted chain state changes only on a fully verified last-state proof.
//! The client builds its own request (H3-seeded samples) through the real exchange; the honest
//! response is mutated structurally or at byte level; the oracle is an independent validity
//! predicate over the simulator's registry plus a byte-for-byte snapshot of the trusted state.

use std::collections::BTreeSet;

use ckb_merkle_mountain_range::{leaf_index_to_mmr_size, leaf_index_to_pos};
use ckb_network::{bytes::Bytes as P2pBytes, PeerIndex, SupportProtocols};
use ckb_pow::Pow;
use ckb_types::{
    bytes::Bytes,
    core::HeaderView,
    packed::{self, Byte32},
    prelude::*,
    utilities::merkle_mountain_range::{HeaderDigest as _, MMRProof},
    H256, U256,
};
use proptest::prelude::*;
use serde::{Deserialize, Serialize};
use serde_json::json;

use crate::lcv::pbt::*;
use crate::lcv::sim::chain::{gen_epochs, mine_header, Chain, TxGen};
use crate::lcv::sim::server::{wrap_lc, View};
use crate::lcv::sim::world::{Cfg, World, START_TIME};
use crate::service::ChainRpc;

#[derive(Debug, Clone, Serialize, Deserialize)]
pub struct Mutation {
    /// 0 = honest (control); 1..=N structural kinds; 200 = byte level
    pub kind: u8,
    /// position selector inside the targeted list
    pub pos: u16,
    pub sub: u8,
    pub val: u64,
    pub remine: bool,
    /// the peer regenerates a VALID MMR proof for the (all genuine) headers it chose to reveal: shape-only deviations
    #[serde(default)]
    pub reprove: bool,
}

#[derive(Debug, Clone, Serialize, Deserialize)]
pub struct Case {
    pub seed: u64,
    pub n_epochs: u8,
    pub maxlen: u8,
    /// height already proven before the request under test (0 = fresh client)
    pub proven: u16,
    /// blocks the chain grows before the request under test
    pub growth: u16,
    pub last_n: u8,
    pub restart_before: bool,
    /// 0: the client's own outstanding request; 1: no request outstanding (answer delivered twice); 2: answer to a superseded request;
    /// 3: the peer announces a newer last state between request and answer; 4: it announces a fork sibling in between;
    /// 5: the peer serves a branch whose blocks (all but the announced tip) carry no valid PoW
    pub situation: u8,
    pub mutation: Mutation,
}

pub struct C01;

pub const KINDS: [&str; 34] = [
    "honest",
    "header-nonce",
    "header-field",
    "header-uncles-hash",
    "header-extension",
    "header-chain-root",
    "drop-header",
    "duplicate-header",
    "swap-headers",
    "replace-by-neighbour",
    "replace-by-fork-block",
    "truncate-last-n-front",
    "truncate-last-n-back",
    "extend-last-n-front",
    "add-sample",
    "drop-proof-item",
    "duplicate-proof-item",
    "perturb-proof-item",
    "append-proof-item",
    "last-header-parent",
    "last-header-fork-sibling",
    "last-header-field",
    "empty-headers",
    "empty-proof",
    "drop-reorg-section",
    "shift-sample",
    "bytes",
    "drop-last-n-middle",
    "drop-reorg-front",
    "drop-reorg-back",
    "skip-boundary-blocks",
    "drop-sample",
    "drop-last-sample",
    "splice-competing-chain",
];

const LAST_NS: [u64; 6] = [1, 2, 3, 5, 10, 100];

/// Trusted state: what the statement calls the client's trusted view of the chain.
#[derive(PartialEq, Eq, Debug, Clone)]
struct Trusted {
    prove: Option<(Vec<u8>, Vec<Vec<u8>>, Vec<Vec<u8>>)>,
    last_state_raw: Vec<u8>,
    last_n_raw: Vec<(u64, Vec<u8>)>,
    tip: Vec<u8>,
}

fn snapshot(w: &World, peer: PeerIndex) -> Trusted {
    let st = w.c().peers.get_state(&peer);
    let prove = st.and_then(|s| {
        s.get_prove_state().map(|p| {
            (
                p.get_last_header().header().data().as_slice().iter().cloned().chain(p.get_last_header().total_difficulty().to_le_bytes().iter().cloned()).collect(),
                p.get_last_headers().iter().map(|h| h.hash().as_slice().to_vec()).collect(),
                p.get_reorg_last_headers().iter().map(|h| h.hash().as_slice().to_vec()).collect(),
            )
        })
    });
    let (td, tip) = w.storage().get_last_state();
    Trusted {
        prove,
        last_state_raw: td.to_le_bytes().iter().cloned().chain(tip.as_slice().iter().cloned()).collect(),
        last_n_raw: w.storage().get_last_n_headers().into_iter().map(|(n, h)| (n, h.as_slice().to_vec())).collect(),
        tip: w.chain_rpc().get_tip_header().map(|h| format!("{:?}", h.hash).into_bytes()).unwrap_or_default(),
    }
}

fn vh_equal(a: &packed::VerifiableHeader, b: &packed::VerifiableHeader) -> bool {
    // the genesis block (like every block before MMR activation) commits to no parent chain root: that field is
    // unverifiable by design and not part of "genuine"
    let n: u64 = b.header().raw().number().unpack();
    if n == 0 {
        return a.header().as_slice() == b.header().as_slice() && a.uncles_hash().as_slice() == b.uncles_hash().as_slice() && a.extension().as_slice() == b.extension().as_slice();
    }
    a.as_slice() == b.as_slice()
}

/// Independent validity predicate (DESIGN C01 / O.b): Ok(()) or the first broken condition.
fn valid(chain: &Chain, peer_tip: u64, req: &packed::GetLastStateProof, msg: &packed::SendLastStateProof) -> Result<(), &'static str> {
    let last = match chain.number_of(&req.last_hash()).filter(|n| *n <= peer_tip) {
        Some(n) => n,
        None => return Err("request-for-unknown-last"),
    };
    if !vh_equal(&msg.last_header(), &chain.verifiable_header(last)) {
        return Err("last-header-not-the-requested-genuine-one");
    }
    let start: u64 = req.start_number().unpack();
    let last_n: u64 = req.last_n_blocks().unpack();
    let headers: Vec<packed::VerifiableHeader> = msg.headers().into_iter().collect();
    let mut numbers = vec![];
    for h in &headers {
        let n: u64 = h.header().raw().number().unpack();
        if n >= last || n as usize >= chain.blocks.len() || !vh_equal(h, &chain.verifiable_header(n)) {
            return Err("header-not-genuine");
        }
        if !chain.pow.engine().verify(&h.header()) {
            return Err("header-without-valid-pow");
        }
        numbers.push(n);
    }
    if numbers.windows(2).any(|w| w[0] >= w[1]) {
        return Err("headers-not-strictly-increasing");
    }
    if last == 0 {
        return Err("nothing-to-prove");
    }
    // MMR inclusion proof against the chain root committed by the requested last header
    {
        let root = chain.chain_root(last - 1);
        let items: Vec<packed::HeaderDigest> = msg.proof().into_iter().collect();
        let proof = MMRProof::new(leaf_index_to_mmr_size(last - 1), items);
        let leaves: Vec<(u64, packed::HeaderDigest)> = numbers.iter().map(|n| (leaf_index_to_pos(*n), chain.blocks[*n as usize].header().digest())).collect();
        if leaves.is_empty() {
            return Err("no-headers");
        }
        match proof.verify(root, leaves) {
            Ok(true) => {}
            _ => return Err("mmr-proof-invalid"),
        }
    }
    let after: Vec<u64> = numbers.iter().cloned().filter(|n| *n >= start).collect();
    let before: Vec<u64> = numbers.iter().cloned().filter(|n| *n < start).collect();
    // reorg section
    let start_is_ancestor = start <= last && chain.blocks[start as usize].hash() == req.start_hash();
    // The client cannot know whether the peer regards the start hash as an ancestor, so a well-shaped reorg section of
    // genuine headers is tolerated when it was not needed; so is a section reaching further back to block 1 (the
    // client's documented "blocks are not enough" rule): the predicate errs on the side of "valid".
    let reorg_shape_ok = |before: &Vec<u64>| {
        let from = if start > last_n { start - last_n } else { 1 };
        let want: Vec<u64> = (from..start.min(last)).collect();
        let want_long: Vec<u64> = (1..start.min(last)).collect();
        *before == want || *before == want_long
    };
    if start != 0 && !start_is_ancestor {
        if !reorg_shape_ok(&before) {
            return Err("reorg-section-wrong");
        }
    } else if !before.is_empty() && !reorg_shape_ok(&before) {
        return Err("unrequested-reorg-section");
    }
    if start >= last {
        return Err("start-not-below-last");
    }
    if last - start <= last_n {
        let want: Vec<u64> = (start..last).collect();
        if after != want {
            return Err("last-n-section-not-all-blocks");
        }
    } else {
        if after.last() != Some(&(last - 1)) {
            return Err("last-n-section-does-not-end-at-the-parent-of-the-last-header");
        }
        // contiguous tail
        let mut first_tail = last;
        for n in after.iter().rev() {
            if *n + 1 == first_tail {
                first_tail = *n;
            } else {
                break;
            }
        }
        // the last-N section must reach back to the boundary block (first block whose total difficulty reaches the
        // requested boundary) and contain at least last_n blocks; a longer contiguous tail is harmless
        let boundary: U256 = req.difficulty_boundary().unpack();
        let bb = (start..last).find(|n| chain.total_diff[*n as usize] >= boundary).unwrap_or(last);
        let b_honest = if last - bb < last_n { last - last_n } else { bb };
        if first_tail > b_honest {
            return Err("last-n-section-starts-after-the-boundary-block");
        }
        // every requested difficulty below the tail is covered by a returned sample
        let samples: BTreeSet<u64> = after.iter().cloned().filter(|n| *n < first_tail).collect();
        let td_before_tail = if first_tail == 0 { U256::zero() } else { chain.total_diff[(first_tail - 1) as usize].clone() };
        for d in req.difficulties().into_iter() {
            let d: U256 = d.unpack();
            if d > td_before_tail {
                continue;
            }
            let n = (start..first_tail).find(|n| chain.total_diff[*n as usize] >= d);
            match n {
                Some(n) if samples.contains(&n) => {}
                _ => return Err("requested-sample-missing"),
            }
        }
        // and every returned sample answers some requested difficulty
        for n in &samples {
            let lo = if *n == 0 { U256::zero() } else { chain.total_diff[(*n - 1) as usize].clone() };
            let hi = chain.total_diff[*n as usize].clone();
            let answers = req.difficulties().into_iter().any(|d| {
                let d: U256 = d.unpack();
                lo < d && d <= hi
            });
            if !answers {
                return Err("unrequested-sample");
            }
        }
    }
    Ok(())
}

fn mutate_header(chain: &Chain, vh: &packed::VerifiableHeader, m: &Mutation, what: &str) -> packed::VerifiableHeader {
    let hv: HeaderView = vh.header().into_view();
    let remine = |h: HeaderView| -> HeaderView {
        if m.remine {
            crate::lcv::sim::chain::mine_header_bounded(&chain.pow, h, m.val as u128, 50_000).0
        } else {
            h
        }
    };
    match what {
        "header-nonce" => vh.clone().as_builder().header(hv.as_advanced_builder().nonce((hv.nonce() ^ (1u128 << (m.val % 128))).pack()).build().data()).build(),
        "header-field" => {
            let b = hv.as_advanced_builder();
            let x = m.val | 1;
            let h = match m.sub % 10 {
                0 => b.timestamp((hv.timestamp() ^ x).pack()),
                1 => b.number((hv.number() ^ (1 + x % 3)).pack()),
                2 => b.epoch((hv.epoch().full_value() ^ (1 << (x % 56))).pack()),
                3 => b.compact_target((hv.compact_target() ^ (1 << (x % 24))).pack()),
                4 => b.parent_hash(Byte32::from_slice(&flip(hv.parent_hash().as_slice(), x)).unwrap()),
                5 => b.transactions_root(Byte32::from_slice(&flip(hv.transactions_root().as_slice(), x)).unwrap()),
                6 => b.proposals_hash(Byte32::from_slice(&flip(hv.proposals_hash().as_slice(), x)).unwrap()),
                7 => b.extra_hash(Byte32::from_slice(&flip(hv.extra_hash().as_slice(), x)).unwrap()),
                8 => b.dao(Byte32::from_slice(&flip(hv.dao().as_slice(), x)).unwrap()),
                _ => b.version((hv.version() ^ 1).pack()),
            }
            .build();
            vh.clone().as_builder().header(remine(h).data()).build()
        }
        "header-uncles-hash" => vh.clone().as_builder().uncles_hash(Byte32::from_slice(&flip(vh.uncles_hash().as_slice(), m.val)).unwrap()).build(),
        "header-extension" => {
            let ext: Vec<u8> = vh.extension().to_opt().map(|e| e.raw_data().to_vec()).unwrap_or_default();
            let new_ext: Vec<u8> = match m.sub % 3 {
                0 => flip(&ext, m.val),
                1 => ext.iter().cloned().chain(std::iter::once(7u8)).collect(),
                _ => vec![],
            };
            let ext_opt: Option<packed::Bytes> = if new_ext.is_empty() && m.sub % 3 == 2 { None } else { Some(Bytes::from(new_ext).pack()) };
            let mut out = vh.clone().as_builder().extension(Pack::pack(&ext_opt)).build();
            if m.remine {
                // keep extra_hash consistent so that later checks are reached
                let extra = ckb_types::core::ExtraHashView::new(vh.uncles_hash(), ext_opt.as_ref().map(|e| e.calc_raw_data_hash())).extra_hash();
                let h = crate::lcv::sim::chain::mine_header_bounded(&chain.pow, hv.as_advanced_builder().extra_hash(extra).build(), m.val as u128, 50_000).0;
                out = out.as_builder().header(h.data()).build();
            }
            out
        }
        _ => {
            // parent chain root fields
            let r = vh.parent_chain_root();
            let rb = r.clone().as_builder();
            let x = m.val | 1;
            let nr = match m.sub % 6 {
                0 => rb.children_hash(Byte32::from_slice(&flip(r.children_hash().as_slice(), x)).unwrap()),
                1 => {
                    let td: U256 = r.total_difficulty().unpack();
                    rb.total_difficulty((td + U256::from(1 + x % 1000)).pack())
                }
                2 => rb.start_number((Unpack::<u64>::unpack(&r.start_number()) ^ 1).pack()),
                3 => rb.end_number((Unpack::<u64>::unpack(&r.end_number()) ^ (1 + x % 2)).pack()),
                4 => rb.start_timestamp((Unpack::<u64>::unpack(&r.start_timestamp()) ^ x).pack()),
                _ => rb.end_compact_target((Unpack::<u32>::unpack(&r.end_compact_target()) ^ 1).pack()),
            }
            .build();
            let mut out = vh.clone().as_builder().parent_chain_root(nr.clone()).build();
            if m.remine {
                // recompute the commitment: extension := mmr hash of the forged root, extra hash, nonce
                let ext: packed::Bytes = Bytes::from(nr.calc_mmr_hash().as_slice().to_vec()).pack();
                let extra = ckb_types::core::ExtraHashView::new(vh.uncles_hash(), Some(ext.calc_raw_data_hash())).extra_hash();
                let h = crate::lcv::sim::chain::mine_header_bounded(&chain.pow, hv.as_advanced_builder().extra_hash(extra).build(), m.val as u128, 50_000).0;
                out = out.as_builder().extension(Pack::<packed::BytesOpt>::pack(&Some(ext))).header(h.data()).build();
            }
            out
        }
    }
}

fn flip(b: &[u8], x: u64) -> Vec<u8> {
    let mut v = b.to_vec();
    if !v.is_empty() {
        let i = (x as usize / 8) % v.len();
        v[i] ^= 1 << (x % 8);
    }
    v
}

/// Applies the mutation to the honest response. Returns the message bytes to deliver.
fn apply(chain: &Chain, fork: &Chain, req: &packed::GetLastStateProof, honest: &packed::SendLastStateProof, layout: &crate::lcv::sim::server::ProofLayout, m: &Mutation) -> Vec<u8> {
    let kind = KINDS[m.kind as usize % KINDS.len()];
    let mut headers: Vec<packed::VerifiableHeader> = honest.headers().into_iter().collect();
    let mut proof: Vec<packed::HeaderDigest> = honest.proof().into_iter().collect();
    let mut last = honest.last_header();
    let n = headers.len();
    let i = if n == 0 { 0 } else { idx(m.pos, n) };
    let last_number: u64 = last.header().raw().number().unpack();
    let _ = req;
    match kind {
        "honest" => {}
        "header-nonce" | "header-field" | "header-uncles-hash" | "header-extension" | "header-chain-root" => {
            if n > 0 {
                headers[i] = mutate_header(chain, &headers[i], m, kind);
            }
        }
        "drop-header" => {
            if n > 0 {
                headers.remove(i);
            }
        }
        "duplicate-header" => {
            if n > 0 {
                let h = headers[i].clone();
                headers.insert(i, h);
            }
        }
        "swap-headers" => {
            if n > 1 {
                let j = (i + 1) % n;
                headers.swap(i, j);
            }
        }
        "replace-by-neighbour" => {
            if n > 0 {
                let num: u64 = headers[i].header().raw().number().unpack();
                let nb = if m.sub % 2 == 0 { num + 1 } else { num.saturating_sub(1) };
                if (nb as usize) < chain.blocks.len() {
                    headers[i] = chain.verifiable_header(nb);
                }
            }
        }
        "replace-by-fork-block" => {
            if n > 0 {
                let num: u64 = headers[i].header().raw().number().unpack();
                if (num as usize) < fork.blocks.len() {
                    headers[i] = fork.verifiable_header(num);
                }
            }
        }
        "truncate-last-n-front" => {
            let k = layout.reorg.len() + layout.sampled.len();
            if k < headers.len() {
                headers.remove(k);
            }
        }
        "truncate-last-n-back" => {
            headers.pop();
        }
        "extend-last-n-front" => {
            if let Some(first) = layout.last_n.first() {
                if *first > 0 {
                    let k = layout.reorg.len() + layout.sampled.len();
                    let cand = first - 1;
                    if !layout.sampled.contains(&cand) && !layout.reorg.contains(&cand) {
                        headers.insert(k, chain.verifiable_header(cand));
                    }
                }
            }
        }
        "add-sample" => {
            // a genuine header below the last-N section that was not requested
            if let Some(first) = layout.last_n.first() {
                let lo = layout.reorg.last().map(|x| x + 1).unwrap_or(0);
                if *first > lo + 1 {
                    let cand = lo + (m.val % (first - lo));
                    if !layout.sampled.contains(&cand) && !layout.reorg.contains(&cand) {
                        headers.push(chain.verifiable_header(cand));
                        headers.sort_by_key(|h| Unpack::<u64>::unpack(&h.header().raw().number()));
                    }
                }
            }
        }
        "shift-sample" => {
            if !layout.sampled.is_empty() {
                let k = layout.reorg.len() + idx(m.pos, layout.sampled.len());
                let num: u64 = headers[k].header().raw().number().unpack();
                let nb = if m.sub % 2 == 0 { num + 1 } else { num.saturating_sub(1) };
                if !layout.numbers().contains(&nb) && (nb as usize) < chain.blocks.len() {
                    headers[k] = chain.verifiable_header(nb);
                }
            }
        }
        "drop-reorg-section" => {
            let k = layout.reorg.len();
            headers.drain(..k.min(headers.len()));
        }
        "drop-proof-item" => {
            if !proof.is_empty() {
                let j = idx(m.pos, proof.len());
                proof.remove(j);
            }
        }
        "duplicate-proof-item" => {
            if !proof.is_empty() {
                let j = idx(m.pos, proof.len());
                let p = proof[j].clone();
                proof.insert(j, p);
            }
        }
        "perturb-proof-item" => {
            if !proof.is_empty() {
                let j = idx(m.pos, proof.len());
                let p = proof[j].clone();
                let td: U256 = p.total_difficulty().unpack();
                proof[j] = match m.sub % 3 {
                    0 => p.as_builder().total_difficulty((td + 1u32).pack()).build(),
                    1 => p.clone().as_builder().children_hash(Byte32::from_slice(&flip(p.children_hash().as_slice(), m.val)).unwrap()).build(),
                    _ => p.clone().as_builder().end_number((Unpack::<u64>::unpack(&p.end_number()) + 1).pack()).build(),
                };
            }
        }
        "append-proof-item" => {
            proof.push(chain.blocks[(m.val % chain.blocks.len() as u64) as usize].header().digest());
        }
        "last-header-parent" => {
            if last_number > 1 {
                last = chain.verifiable_header(last_number - 1);
                if m.sub % 2 == 0 {
                    proof.clear();
                    headers.clear();
                }
            }
        }
        "last-header-fork-sibling" => {
            if (last_number as usize) < fork.blocks.len() {
                last = fork.verifiable_header(last_number);
                if m.sub % 2 == 0 {
                    proof.clear();
                    headers.clear();
                }
            }
        }
        "last-header-field" => {
            last = mutate_header(chain, &last, m, ["header-nonce", "header-field", "header-uncles-hash", "header-extension", "header-chain-root"][(m.sub / 16) as usize % 5]);
        }
        "empty-headers" => headers.clear(),
        "empty-proof" => proof.clear(),
        "drop-last-n-middle" => {
            let k = layout.reorg.len() + layout.sampled.len();
            if headers.len() >= k + 3 {
                let span = (headers.len() - k - 2) as u64;
                headers.remove(k + 1 + (m.val % span) as usize);
            }
        }
        "drop-reorg-front" => {
            if !layout.reorg.is_empty() {
                headers.remove(0);
            }
        }
        "drop-reorg-back" => {
            if !layout.reorg.is_empty() {
                headers.remove(layout.reorg.len() - 1);
            }
        }
        "skip-boundary-blocks" => {
            // the tail starts after the boundary block but still has more than last_n blocks
            let k = layout.reorg.len() + layout.sampled.len();
            let last_n: u64 = req.last_n_blocks().unpack();
            let tail = headers.len() - k.min(headers.len());
            if !layout.sampled.is_empty() && tail as u64 > last_n + 1 {
                let room = tail as u64 - last_n - 1;
                let j = 1 + (m.val % room) as usize;
                headers.drain(k..k + j);
            }
        }
        "splice-competing-chain" => {
            // The requested last header is echoed (header, uncles hash, extension), but its parent chain root, all the
            // returned headers and the MMR proof are those of a competing branch which has the same total difficulty at that
            // height: a complete, valid proof -- of another chain.
            if (last_number as usize) < fork.blocks.len() && last_number >= 1 && fork.total_diff[(last_number - 1) as usize] == chain.total_diff[(last_number - 1) as usize] {
                let nums = layout.numbers();
                if !nums.is_empty() && nums.iter().all(|n| (*n as usize) < fork.blocks.len()) {
                    last = last.clone().as_builder().parent_chain_root(fork.chain_root(last_number - 1)).build();
                    headers = nums.iter().map(|n| fork.verifiable_header(*n)).collect();
                    proof = fork.proof_for(last_number, &nums).into_iter().collect();
                }
            }
        }
        "drop-last-sample" => {
            // the sample right below the tail: the requested difficulties are densest there (edge of the "is a block missing
            // between the samples and the last-n section" condition)
            if !layout.sampled.is_empty() {
                headers.remove(layout.reorg.len() + layout.sampled.len() - 1);
            }
        }
        "drop-sample" => {
            if !layout.sampled.is_empty() {
                let k = layout.reorg.len() + idx(m.pos, layout.sampled.len());
                headers.remove(k);
            }
        }
        _ => {}
    }
    if m.reprove && !matches!(kind, "bytes" | "honest" | "drop-proof-item" | "duplicate-proof-item" | "perturb-proof-item" | "append-proof-item" | "empty-proof" | "splice-competing-chain") {
        // a peer which owns the real chain reveals another set of genuine headers and proves exactly that set
        let ln: u64 = last.header().raw().number().unpack();
        let nums: Vec<u64> = headers.iter().map(|h| Unpack::<u64>::unpack(&h.header().raw().number())).collect();
        let all_genuine = !nums.is_empty()
            && (ln as usize) < chain.blocks.len()
            && vh_equal(&last, &chain.verifiable_header(ln))
            && nums.windows(2).all(|w| w[0] < w[1])
            && nums.iter().zip(headers.iter()).all(|(n, h)| *n < ln && vh_equal(h, &chain.verifiable_header(*n)));
        if all_genuine {
            proof = chain.proof_for(ln, &nums).into_iter().collect();
        }
    }
    let msg = packed::SendLastStateProof::new_builder()
        .last_header(last)
        .proof(packed::HeaderDigestVec::new_builder().set(proof).build())
        .headers(packed::VerifiableHeaderVec::new_builder().set(headers).build())
        .build();
    let mut bytes = wrap_lc(msg).as_bytes().to_vec();
    if kind == "bytes" {
        let mut r = Prng::new(m.val);
        let k = 1 + (m.sub % 4) as usize;
        for _ in 0..k {
            if bytes.is_empty() {
                break;
            }
            let p = r.below(bytes.len() as u64) as usize;
            match r.below(4) {
                0 => bytes[p] ^= 1 << r.below(8),
                1 => bytes[p] = r.next() as u8,
                2 => {
                    bytes.truncate(p.max(1));
                }
                _ => {
                    let q = r.below(bytes.len() as u64) as usize;
                    let b = bytes[q];
                    bytes.insert(p, b);
                }
            }
        }
    }
    bytes
}

impl Property for C01 {
    type Case = Case;
    const ID: &'static str = "C01";

    fn cases(tier: Tier) -> u32 {
        match tier {
            Tier::Quick => 4200,
            Tier::Thorough => 40_000,
        }
    }

    fn rule() -> &'static str {
        "cases: (chain with per-epoch difficulty, client fresh / already proven at some height / restarted, last_n in {1,2,3,5,10,100}, growth) -> the client's own GetLastStateProof (H3-seeded samples) is intercepted and answered with one of 26 structural mutations \
         (any header / field / section / proof item / last header; optionally re-mined with recomputed commitments) or a byte-level mutation of the honest response; also delivered with no request outstanding or for a superseded request. \
         oracle: trusted state (peer prove state, LAST_STATE, LAST_N_HEADERS, get_tip_header) changed => independent validity predicate over the simulator's registry holds; invalid => byte-for-byte unchanged and bogus headers not served. \
         non-trivial: the delivered message is invalid by the predicate while a client-built request was outstanding; distinct by (mutation kind, sub-kind, section of the target, request shape, remined, situation)"
    }

    fn strategy(tier: Tier) -> BoxedStrategy<Case> {
        let maxg = match tier {
            Tier::Quick => 260u16,
            Tier::Thorough => 600u16,
        };
        let mutation = (prop_oneof![1 => Just(0u8), 20 => 1u8..26, 3 => Just(26u8), 8 => 27u8..34], any::<u16>(), any::<u8>(), any::<u64>(), prop::bool::weighted(0.4), prop::bool::weighted(0.6))
            .prop_map(|(kind, pos, sub, val, remine, reprove)| Mutation { kind, pos, sub, val, remine, reprove });
        (any::<u64>(), 1u8..25, 1u8..30, prop_oneof![2 => Just(0u16), 3 => 1u16..200], 1u16..maxg, 0u8..6, prop::bool::weighted(0.2), prop_oneof![7 => Just(0u8), 1 => Just(1u8), 1 => Just(2u8), 3 => Just(3u8), 1 => Just(4u8), 3 => Just(5u8)], mutation)
            .prop_map(|(seed, n_epochs, maxlen, proven, growth, last_n, restart_before, situation, mutation)| Case {
                seed,
                n_epochs,
                maxlen,
                proven,
                growth: if seed % 3 == 0 { 1 + growth % 12 } else { growth },
                last_n,
                restart_before,
                situation,
                mutation,
            })
            .boxed()
    }

    fn run(case: &Case, obs: &mut Obs) -> Result<(), Failure> {
        let last_n = LAST_NS[case.last_n as usize % LAST_NS.len()];
        let epochs = gen_epochs(case.seed, case.n_epochs as usize, case.maxlen as u64, 10);
        let mut chain = Chain::new(epochs, START_TIME, case.seed, Pow::Eaglesong, TxGen { density: 20, ..TxGen::default() });
        chain.mine_n(case.proven as u64);
        let cfg = Cfg { last_n, ..Cfg::default() };
        let mut w = World::new(vec![chain], cfg);
        crate::verif_hooks::set_rng_seed(Some(case.seed ^ 0xc01));
        let finish = |r: Result<(), Failure>| {
            crate::verif_hooks::set_rng_seed(None);
            r
        };
        let mut peer = w.connect(0, w.chains[0].tip(), true);
        if case.proven > 0 {
            let tipn = w.chains[0].tip();
            let res = w.drain(200, |w| Unpack::<u64>::unpack(&w.storage().get_tip_header().raw().number()) == tipn && w.c().peers.get_state(&PeerIndex::new(1)).map(|s| s.get_prove_state().is_some()).unwrap_or(false));
            if !w.bans().is_empty() || !res.goal {
                obs.label("setup-ended-by-ban-or-stall(C05)");
                return finish(Ok(()));
            }
        }
        if case.restart_before {
            w.restart();
            peer = w.connect(0, w.chains[0].tip(), true);
            obs.label("restarted");
        }
        // the chain grows; a fork sibling branch for replacement material
        let base = w.chains[0].tip();
        let fork_at = base.saturating_sub(2);
        let mut fork = w.chains[0].fork_at(fork_at, case.seed ^ 0xf0);
        if case.situation == 5 {
            // forged continuation without work: only the announced tip is mined
            w.chains[0].skip_pow = true;
            w.chains[0].mine_n((case.growth as u64).max(2) - 1);
            w.chains[0].skip_pow = false;
            w.chains[0].mine_n(1);
            obs.label("branch-without-pow");
        } else {
            w.chains[0].mine_n(case.growth as u64);
        }
        fork.mine_n(case.growth as u64 + 2);
        // deliver everything except proof requests until the client's GetLastStateProof is in flight
        w.announce_tips(0);
        let mut req_opt: Option<packed::GetLastStateProof> = None;
        let mut superseded: Option<packed::GetLastStateProof> = None;
        for _round in 0..40 {
            let mut found = None;
            let n = w.outbox_len();
            for i in 0..n {
                let is_req = {
                    let q = w.shared.sent.lock().unwrap();
                    let (proto, p, data) = &q[i];
                    *proto == SupportProtocols::LightClient.protocol_id()
                        && *p == peer
                        && matches!(packed::LightClientMessage::from_slice(data).map(|m| m.to_enum()), Ok(packed::LightClientMessageUnion::GetLastStateProof(_)))
                };
                if is_req {
                    found = Some(i);
                    break;
                }
            }
            if let Some(i) = found {
                let msg = w.take_request(i).unwrap();
                if let Ok(packed::LightClientMessageUnion::GetLastStateProof(r)) = packed::LightClientMessage::from_slice(&msg.2).map(|m| m.to_enum()) {
                    if case.situation == 2 && superseded.is_none() {
                        // supersede it: the chain grows again, the client will ask anew
                        superseded = Some(r);
                        w.grow(0, 1 + (case.seed % 3));
                        continue;
                    }
                    req_opt = Some(r);
                    break;
                }
            }
            // answer the rest honestly, fire the refresh timer
            while let Some(m) = w.pop_request() {
                let p = m.1;
                let is_proof_req = matches!(packed::LightClientMessage::from_slice(&m.2).map(|x| x.to_enum()), Ok(packed::LightClientMessageUnion::GetLastStateProof(_))) && m.0 == SupportProtocols::LightClient.protocol_id();
                if is_proof_req {
                    w.shared.sent.lock().unwrap().push_front(m);
                    break;
                }
                for (proto, bytes) in w.honest_replies(&m) {
                    w.deliver(proto, p, bytes);
                }
            }
            if w.outbox_len() == 0 {
                w.tick(SupportProtocols::LightClient, 0);
                w.advance(100);
            }
        }
        let current_req = match req_opt {
            Some(r) => r,
            None => {
                obs.label("no-proof-request-built");
                return finish(Ok(()));
            }
        };
        // which request is answered
        let (answered_req, outstanding) = match case.situation {
            2 => match &superseded {
                Some(s) => (s.clone(), false),
                None => (current_req.clone(), true),
            },
            _ => (current_req.clone(), true),
        };
        let sp = w.peer(peer).unwrap().clone();
        let view = View { chain: &w.chains[0], tip: sp.tip };
        let (honest, layout) = view.send_last_state_proof(&answered_req);
        let layout = match layout {
            Some(l) => l,
            None => {
                obs.label("peer-does-not-know-the-requested-header");
                return finish(Ok(()));
            }
        };
        let shape = if answered_req.difficulties().is_empty() { "all-blocks" } else { "sampled" };
        obs.label(format!("request:{}{}", shape, if layout.reorg.is_empty() { "" } else { "+reorg" }));
        if case.situation == 1 {
            // no request outstanding: answer honestly first, then deliver the message under test again
            let bytes = wrap_lc(honest.clone()).as_bytes();
            w.deliver(SupportProtocols::LightClient, peer, bytes);
        }
        if case.situation == 3 {
            // a newer (unproven) last state is announced while the proof for the requested one is outstanding
            let k = 1 + case.seed % 4;
            w.chains[0].mine_n(k);
            let t = w.chains[0].tip();
            let bytes = wrap_lc(packed::SendLastState::new_builder().last_header(w.chains[0].verifiable_header(t)).build()).as_bytes();
            w.deliver(SupportProtocols::LightClient, peer, bytes);
            obs.label("announced-newer-last-state-before-answer");
        }
        if case.situation == 4 {
            let t = fork.tip();
            let bytes = wrap_lc(packed::SendLastState::new_builder().last_header(fork.verifiable_header(t)).build()).as_bytes();
            w.deliver(SupportProtocols::LightClient, peer, bytes);
            obs.label("announced-fork-last-state-before-answer");
        }
        let kind = KINDS[case.mutation.kind as usize % KINDS.len()];
        let bytes = apply(&w.chains[0], &fork, &answered_req, &honest, &layout, &case.mutation);
        let is_honest_bytes = bytes == wrap_lc(honest.clone()).as_bytes().to_vec();
        // validity of what is delivered
        let decoded = packed::LightClientMessage::from_slice(&bytes).ok().and_then(|m| match m.to_enum() {
            packed::LightClientMessageUnion::SendLastStateProof(p) => Some(p),
            _ => None,
        });
        // the outstanding request is what the client itself recorded for the peer right now
        let recorded: Option<packed::GetLastStateProof> = w.c().peers.get_state(&peer).and_then(|s| s.get_prove_request().map(|r| r.get_content().clone()));
        let _ = (&current_req, outstanding);
        let validity: Result<(), &'static str> = match (&decoded, &recorded) {
            (None, _) => Err("not-a-well-formed-SendLastStateProof"),
            (_, None) => Err("no-request-outstanding"),
            (Some(p), Some(rq)) => valid(&w.chains[0], sp.tip, rq, p),
        };
        let before = snapshot(&w, peer);
        let bans_before = w.bans().len();
        w.deliver(SupportProtocols::LightClient, peer, P2pBytes::from(bytes.clone()));
        let after = snapshot(&w, peer);
        obs.label(format!("mutation:{}", kind));
        let desc = || {
            format!(
                "mutation {} (pos {}, sub {}, remine {}) on a {} response with {} headers / {} proof items; request start {} last_n {} difficulties {}; situation {}; validity {:?}; banned {}",
                kind,
                case.mutation.pos,
                case.mutation.sub,
                case.mutation.remine,
                shape,
                honest.headers().len(),
                honest.proof().len(),
                Unpack::<u64>::unpack(&answered_req.start_number()),
                last_n,
                answered_req.difficulties().len(),
                case.situation,
                validity,
                w.bans().len() > bans_before
            )
        };
        match validity {
            Err(why) => {
                if before != after {
                    // one legitimate way: an empty-proof message announcing a header that another peer has proven (single peer here: impossible)
                    return finish(Err(Failure::new(format!("trusted-state-changed-by-invalid-response/{}", why), desc())));
                }
                // bogus headers must not be served
                if let Some(p) = &decoded {
                    for h in p.headers().into_iter().chain(std::iter::once(p.last_header())) {
                        let hv = h.header().into_view();
                        let genuine = w.chains[0].number_of(&hv.hash()).is_some();
                        if !genuine {
                            let got = w.chain_rpc().get_header(hv.hash().unpack()).ok().flatten();
                            if got.is_some() {
                                return finish(Err(Failure::new("bogus-header-served-by-get_header", desc())));
                            }
                        }
                    }
                }
                if outstanding && (case.situation == 0 || case.situation == 5) && (!is_honest_bytes || case.situation == 5) {
                    let target_section = {
                        let n = honest.headers().len();
                        let i = if n == 0 { 0 } else { idx(case.mutation.pos, n) };
                        if i < layout.reorg.len() {
                            "reorg"
                        } else if i < layout.reorg.len() + layout.sampled.len() {
                            "sample"
                        } else {
                            "last-n"
                        }
                    };
                    let reproved = case.mutation.reprove && decoded.as_ref().map(|p| p.proof().as_slice() != honest.proof().as_slice() || p.headers().as_slice() == honest.headers().as_slice()).unwrap_or(false);
                    if case.mutation.reprove && decoded.as_ref().map(|p| p.headers().as_slice() != honest.headers().as_slice()).unwrap_or(false) {
                        obs.label(format!("reproved-shape-deviation:{}", why));
                    }
                    obs.nontrivial((kind, case.mutation.sub % 16, target_section, shape, !layout.reorg.is_empty(), case.mutation.remine, why, reproved));
                }
                finish(Ok(()))
            }
            Ok(()) => {
                // a valid answer may only establish the REQUESTED header as trusted
                if before != after {
                    let want = recorded.as_ref().map(|r| r.last_hash());
                    let proven = w.c().peers.get_state(&peer).and_then(|s| s.get_prove_state().map(|p| p.get_last_header().header().hash()));
                    if proven != want {
                        return finish(Err(Failure::new("valid-proof-established-another-header", format!("requested {:?} proven {:?} :: {}", want, proven, desc()))));
                    }
                    let tip_after = w.storage().get_tip_header().calc_header_hash();
                    let tip_before_hash = Byte32::from_slice(&ckb_hash::blake2b_256(&before.last_state_raw[32..])[..]).unwrap();
                    if Some(tip_after.clone()) != want && tip_after != tip_before_hash {
                        return finish(Err(Failure::new("valid-proof-moved-the-tip-to-another-header", format!("requested {:?} tip {:#x} :: {}", want, tip_after, desc()))));
                    }
                    if case.situation == 3 || case.situation == 4 {
                        obs.nontrivial(("valid-after-announcement", case.situation, shape, kind));
                    }
                }
                // a valid answer to the outstanding request: acceptance is C05's business; count benign mutations
                if !is_honest_bytes {
                    obs.label("benign-mutation(still valid)");
                }
                if before == after && is_honest_bytes {
                    obs.label("honest-answer-not-accepted(judged by C05)");
                }
                finish(Ok(()))
            }
        }
    }
}
