//! C03 — script index equals the chain (no phantom or spent cells, no missing activity),
//! whatever the user did meanwhile (fetch_transaction, fetch_header, more set_scripts, restarts).

use proptest::prelude::*;
use serde::{Deserialize, Serialize};
use serde_json::json;

use crate::lcv::pbt::*;
use crate::lcv::props::common::*;

#[derive(Debug, Clone, Serialize, Deserialize)]
pub struct Case {
    pub chain: ChainParams,
    pub net: NetParams,
    pub initial: Vec<RegSpec>,
    pub steps: Vec<Step>,
}

pub struct C03;

impl Property for C03 {
    type Case = Case;
    const ID: &'static str = "C03";

    fn cases(tier: Tier) -> u32 {
        match tier {
            Tier::Quick => 1200,
            Tier::Thorough => 15_000,
        }
    }

    fn rule() -> &'static str {
        "cases: generated chain with a UTXO graph over a prefix-sharing script universe (same-block chains, typed cells, multi-script blocks) x initial registrations (script, lock/type, start 0 / inside / at / above tip) \
         x schedule (deliver i-th, pump, ticks, growth, restart, fetch_transaction, fetch_header, set_scripts all/partial/delete, partial drains) then fair drain; oracle = reference index (DESIGN 4.4). \
         non-trivial: at least one registered script has an in-range cell that is spent in a later in-range block (the index must add and remove); distinct by (scripts, restart?, fetches?, set_scripts?, length bucket, spent-cell count bucket, schedule hash)"
    }

    fn strategy(tier: Tier) -> BoxedStrategy<Case> {
        let maxlen = match tier {
            Tier::Quick => 160u16,
            Tier::Thorough => 400u16,
        };
        (chain_params(maxlen), net_params(), prop::collection::vec(reg_spec(), 1..4), prop::collection::vec(step_strategy(true), 0..40))
            .prop_map(|(chain, net, initial, steps)| Case { chain, net, initial, steps })
            .boxed()
    }

    fn run(case: &Case, obs: &mut Obs) -> Result<(), Failure> {
        let chain = build_chain(&case.chain);
        let mut sim = Sim::new(chain, build_cfg(&case.net));
        crate::verif_hooks::set_rng_seed(Some(case.chain.seed ^ 0xc03));
        sim.set_scripts(0, &case.initial);
        sim.connect_quorum();
        for st in &case.steps {
            sim.step(st);
            if let Some(l) = ended_by_ban(&sim.w) {
                // bans / disconnects of honest peers are judged by C05, not here
                crate::verif_hooks::set_rng_seed(None);
                obs.label(l);
                return Ok(());
            }
        }
        let fin = sim.finish();
        crate::verif_hooks::set_rng_seed(None);
        if let Err(f) = fin {
            if f.signature.starts_with("honest-peer-") {
                obs.label(format!("ended-by-ban:{}", f.signature));
                return Ok(());
            }
            return Err(f);
        }
        if sim.restarts > 0 {
            obs.label("restart");
        }
        if sim.fetches > 0 {
            obs.label("fetch");
        }
        if sim.set_scripts_calls > 1 {
            obs.label("set_scripts-during-sync");
        }
        if sim.set_scripts_while_pending > 0 {
            obs.label("set_scripts-while-matched-blocks-pending");
        }
        obs.note("stats", json!(sim.w.stats));
        sim.compare_all()?;
        // non-triviality: some registered script saw a create + spend inside its range
        let chain = &sim.w.chains[0];
        let mut spent_in_range = 0u64;
        for r in sim.regs.values() {
            for ci in chain.cells.values() {
                if r.matches(&ci.output) && r.in_range(ci.block) {
                    if let Some((b, _, _)) = ci.spent_at {
                        if r.in_range(b) {
                            spent_in_range += 1;
                        }
                    }
                }
            }
        }
        if spent_in_range > 0 {
            use std::hash::{Hash, Hasher};
            let mut h = std::collections::hash_map::DefaultHasher::new();
            format!("{:?}", case.steps).hash(&mut h);
            let scripts: Vec<_> = sim.regs.keys().cloned().collect();
            obs.nontrivial((scripts, sim.restarts > 0, sim.fetches > 0, sim.set_scripts_calls > 1, chain.tip() / 32, spent_in_range.min(16), h.finish()));
        }
        Ok(())
    }
}
