pub mod c14;
pub mod c15;
