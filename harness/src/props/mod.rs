pub mod c05;
pub mod c14;
pub mod c15;
