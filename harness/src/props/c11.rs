//! C11 — per-peer sync state machine follows its diagram for every event order.
//! Event sequences over (connect, disconnect, refresh / fetch ticks, clock, last-state
//! announcements, solicited / stale / unsolicited / invalid proofs, fetch requests) drive the real
//! handlers; a reference model of the 7-state diagram is stepped in lock-step (allowed-set check)
//! and the invariants I1–I4 of DESIGN.md are checked after every event.

use std::collections::{BTreeMap, HashMap};

use ckb_network::{bytes::Bytes as P2pBytes, PeerIndex, SupportProtocols};
use ckb_pow::Pow;
use ckb_types::{packed, prelude::*, H256};
use proptest::prelude::*;
use serde::{Deserialize, Serialize};

use crate::lcv::pbt::*;
use crate::lcv::sim::chain::{gen_epochs, Chain, TxGen};
use crate::lcv::sim::server::{wrap_lc, View};
use crate::lcv::sim::world::{Cfg, World, START_TIME};
use crate::service::{ChainRpc, TransactionRpc};

#[derive(Debug, Clone, Serialize, Deserialize)]
pub enum Ev {
    Connect(u8),
    Disconnect(u8),
    Tick,
    FetchTick,
    /// index into ADVANCES
    Advance(u8),
    /// answer honestly the i-th request in flight (any peer): solicited, possibly stale
    Answer(u16),
    /// SendLastState from peer p: 0 same, 1 new (chain grows), 2 older, 3 fork tip, 4 child of what it announced last
    Announce(u8, u8),
    /// unsolicited message from peer p: 0 last-state proof, 1 blocks proof, 2 transactions proof
    Unsolicited(u8, u8),
    /// answer the oldest pending proof request of p with a corrupted response
    Invalid(u8),
    FetchHeader(u16),
    FetchTx(u16),
    /// like Answer, but only requests of the state machine (GetLastState / GetLastStateProof) are answered: fetch requests
    /// (GetBlocksProof / GetTransactionsProof / GetBlocks) stay unanswered and grow old while the peer keeps talking
    AnswerState(u16),
}

#[derive(Debug, Clone, Serialize, Deserialize)]
pub struct Case {
    pub seed: u64,
    pub n_peers: u8,
    pub len: u8,
    pub events: Vec<Ev>,
    /// all peers are connected and proven by an honest exchange before the first event
    #[serde(default)]
    pub warm: bool,
}

pub struct C11;

const ADVANCES: [u64; 9] = [1, 100, 7_999, 8_000, 8_001, 30_000, 59_999, 60_000, 60_001];

#[derive(Debug, Clone, Copy, PartialEq, Eq, PartialOrd, Ord)]
enum S {
    Init,
    ReqLS,
    HasLS,
    ReqProof1,
    Ready,
    ReqNewLS,
    ReqProof2,
}

fn parse_state(s: &str) -> Option<S> {
    let name = s.trim_start_matches("PeerState::").split(|c: char| c == ' ' || c == '{').next().unwrap_or("");
    Some(match name {
        "Initialized" => S::Init,
        "RequestFirstLastState" => S::ReqLS,
        "OnlyHasLastState" => S::HasLS,
        "RequestFirstLastStateProof" => S::ReqProof1,
        "Ready" => S::Ready,
        "RequestNewLastState" => S::ReqNewLS,
        "RequestNewLastStateProof" => S::ReqProof2,
        _ => return None,
    })
}

fn when_sent(full: &str) -> Option<u64> {
    full.split("when_sent: ").nth(1)?.split(|c: char| !c.is_ascii_digit()).next()?.parse().ok()
}

/// Observation of one peer as the client sees it.
#[derive(Debug, Clone)]
struct PeerObs {
    state: S,
    when_sent: Option<u64>,
    update_ts: Option<u64>,
    proven: Option<packed::Byte32>,
    requested: Option<packed::Byte32>,
    blocks_proof_hashes: Option<Vec<H256>>,
    txs_proof_hashes: Option<Vec<H256>>,
    has_blocks_request: bool,
}

fn observe(w: &World) -> BTreeMap<usize, PeerObs> {
    let mut out = BTreeMap::new();
    for idx in w.c().peers.get_peers_index() {
        if let Some(peer) = w.c().peers.get_peer(&idx) {
            let st = w.c().peers.get_state(&idx).unwrap();
            let full = format!("{:#}", st);
            out.insert(
                idx.value(),
                PeerObs {
                    state: parse_state(&full).unwrap_or(S::Init),
                    when_sent: when_sent(&full),
                    update_ts: st.get_last_state().map(|l| l.update_ts()),
                    proven: st.get_prove_state().map(|p| p.get_last_header().header().hash()),
                    requested: st.get_prove_request().map(|r| r.get_last_header().header().hash()),
                    blocks_proof_hashes: peer.get_blocks_proof_request().map(|r| r.block_hashes()),
                    txs_proof_hashes: peer.get_txs_proof_request().map(|r| r.tx_hashes()),
                    has_blocks_request: peer.get_blocks_request().is_some(),
                },
            );
        }
    }
    out
}

fn allowed_after_tick(s: S) -> Vec<S> {
    match s {
        S::Init => vec![S::ReqLS],
        S::ReqLS => vec![S::ReqLS],
        S::HasLS => vec![S::HasLS, S::ReqProof1, S::Ready],
        S::ReqProof1 => vec![S::ReqProof1],
        S::Ready => vec![S::Ready, S::ReqNewLS, S::ReqProof2],
        S::ReqNewLS => vec![S::ReqNewLS],
        S::ReqProof2 => vec![S::ReqProof2],
    }
}

fn allowed_after_last_state(s: S) -> Vec<S> {
    match s {
        S::ReqLS => vec![S::HasLS, S::ReqProof1, S::Ready],
        // the same last state again changes nothing (the timestamp is deliberately not refreshed)
        S::ReqNewLS => vec![S::Ready, S::ReqNewLS],
        // a child of the proven header is trusted at once (child fast path): the pending proof request is dropped
        S::ReqProof2 => vec![S::ReqProof2, S::Ready],
        other => vec![other],
    }
}

fn allowed_after_proof(s: S) -> Vec<S> {
    match s {
        S::ReqProof1 => vec![S::ReqProof1, S::Ready],
        S::ReqProof2 => vec![S::ReqProof2, S::Ready],
        other => vec![other],
    }
}

impl Property for C11 {
    type Case = Case;
    const ID: &'static str = "C11";

    fn cases(tier: Tier) -> u32 {
        match tier {
            Tier::Quick => 16000,
            Tier::Thorough => 200_000,
        }
    }

    fn rule() -> &'static str {
        "cases: event sequences (<= 40) over connect / disconnect / refresh tick / fetch tick / clock advance in {1,100,7999,8000,8001,30000,59999,60000,60001} ms / honest answer to the i-th request in flight (solicited or stale) / \
         SendLastState (same, new, older, fork, child) / unsolicited proofs / corrupted proof / fetch_header / fetch_transaction, for 1..3 peers on a small mined chain. After every event: state in the model-allowed set of the diagram, \
         I1 prove state changes only for the requested header (or documented copy / child fast path), I2 last-state update keeps the proof, I3 exactly the peers with an expired timer are disconnected by a refresh tick, I4 disconnect leaves no state and re-queues the peer's in-flight fetches. \
         non-trivial: the sequence contains a stale or unsolicited proof or a refresh tick within 1 ms of a timeout boundary; distinct by (peers, which of those occurred, event-shape hash)"
    }

    fn strategy(_tier: Tier) -> BoxedStrategy<Case> {
        let ev = prop_oneof![
            2 => (0u8..3).prop_map(Ev::Connect),
            1 => (0u8..3).prop_map(Ev::Disconnect),
            5 => Just(Ev::Tick),
            2 => Just(Ev::FetchTick),
            4 => (0u8..9).prop_map(Ev::Advance),
            8 => any::<u16>().prop_map(Ev::Answer),
            4 => (0u8..3, 0u8..5).prop_map(|(p, k)| Ev::Announce(p, k)),
            2 => (0u8..3, 0u8..3).prop_map(|(p, k)| Ev::Unsolicited(p, k)),
            1 => (0u8..3).prop_map(Ev::Invalid),
            1 => any::<u16>().prop_map(Ev::FetchHeader),
            1 => any::<u16>().prop_map(Ev::FetchTx),
            5 => any::<u16>().prop_map(Ev::AnswerState),
        ];
        // Timeline templates (one case in four): an unanswered fetch request grows old while the peer keeps its last state
        // fresh and a YOUNGER request is pending as well; every timer has to be honoured on its own. The parameters are
        // drawn, the random events follow the scripted prefix.
        let script = (0u8..2, 0u8..3, any::<u16>(), any::<u16>(), 0u8..4, 0u8..4, 0u8..3, any::<bool>()).prop_map(|(old, young, k1, k2, a1, a2, a3, answer_state)| {
            let mut v = vec![];
            v.push(if old == 0 { Ev::FetchHeader(k1) } else { Ev::FetchTx(k1) });
            v.push(Ev::FetchTick);
            v.push(Ev::Advance([1u8, 4, 5, 6][a1 as usize])); // 100 ms, 8 001 ms, 30 000 ms, 59 999 ms
            v.push(Ev::Announce(0, 1)); // a new last state: update_ts is fresh again
            match young {
                0 => v.push(Ev::Tick), // the proof request for the new last state is the younger request
                1 => {
                    v.push(if old == 0 { Ev::FetchTx(k2) } else { Ev::FetchHeader(k2) });
                    v.push(Ev::FetchTick);
                }
                _ => {}
            }
            if answer_state {
                v.push(Ev::AnswerState(0));
            }
            v.push(Ev::Advance([5u8, 6, 7, 8][a2 as usize])); // 30 000, 59 999, 60 000, 60 001
            v.push(Ev::Advance([0u8, 1, 5][a3 as usize])); // 1, 100, 30 000
            v.push(Ev::Tick);
            v
        });
        let events = prop_oneof![
            3 => prop::collection::vec(ev.clone(), 1..40),
            1 => (script, prop::collection::vec(ev, 0..12)).prop_map(|(mut s, tail)| {
                s.extend(tail);
                s
            }),
        ];
        (any::<u64>(), 1u8..4, 6u8..40, events, any::<bool>(), any::<bool>())
            .prop_map(|(seed, n_peers, len, events, warm, single)| {
                let scripted = matches!(events.first(), Some(Ev::FetchHeader(_)) | Some(Ev::FetchTx(_))) && matches!(events.get(1), Some(Ev::FetchTick));
                Case { seed, n_peers: if scripted && single { 1 } else { n_peers }, len, events, warm: warm || scripted }
            })
            .boxed()
    }

    fn run(case: &Case, obs: &mut Obs) -> Result<(), Failure> {
        let epochs = gen_epochs(case.seed, 4, 12, 0);
        let mut chain = Chain::new(epochs, START_TIME, case.seed, Pow::Eaglesong, TxGen::default());
        chain.mine_n(case.len as u64);
        let fork = {
            let mut f = chain.fork_at(chain.tip().saturating_sub(2), case.seed ^ 5);
            f.mine_n(4);
            f
        };
        let n_peers = case.n_peers.max(1) as usize;
        let cfg = Cfg { last_n: 3, max_outbound: n_peers as u32, interval: 8, ..Cfg::default() };
        let mut w = World::new(vec![chain, fork], cfg);
        crate::verif_hooks::set_rng_seed(Some(case.seed ^ 0xc11));
        // slot -> current PeerIndex
        let mut slot: Vec<Option<PeerIndex>> = vec![None; n_peers];
        // model timers for requests whose when_sent is not observable: (peer, kind) -> sent at
        let mut req_sent: HashMap<(usize, u8), u64> = HashMap::new();
        let mut saw_stale = false;
        let mut saw_unsolicited = false;
        let mut saw_boundary = false;
        let mut last_announced: HashMap<usize, u64> = HashMap::new();
        let finish = |r: Result<(), Failure>| {
            crate::verif_hooks::set_rng_seed(None);
            r
        };
        if case.warm {
            for s in 0..n_peers {
                let tip = w.chains[0].tip();
                slot[s] = Some(w.connect(0, tip, true));
            }
            for _ in 0..6 {
                w.pump();
                w.tick(SupportProtocols::LightClient, 0);
            }
            w.pump();
            obs.label("warm-start");
        }
        for (step, ev) in case.events.iter().enumerate() {
            let before = observe(&w);
            let outbox_before: Vec<(u8, usize, P2pBytes)> = w.shared.sent.lock().unwrap().iter().map(|(p, i, d)| (p.value() as u8, i.value(), d.clone())).collect();
            let discon_before = w.disconnect_log.len();
            let mut sender: Option<usize> = None;
            let mut kind = "other";
            let mut delivered_proof_for: Option<packed::Byte32> = None;
            match ev {
                Ev::Connect(s) => {
                    let s = *s as usize % n_peers;
                    if slot[s].is_none() {
                        let tip = w.chains[0].tip();
                        slot[s] = Some(w.connect(0, tip, true));
                        kind = "connect";
                        sender = slot[s].map(|p| p.value());
                    }
                }
                Ev::Disconnect(s) => {
                    let s = *s as usize % n_peers;
                    if let Some(p) = slot[s].take() {
                        w.disconnect(p);
                        kind = "disconnect";
                        sender = Some(p.value());
                    }
                }
                Ev::Tick => {
                    kind = "tick";
                    w.tick(SupportProtocols::LightClient, 0);
                }
                Ev::FetchTick => {
                    kind = "fetch-tick";
                    w.tick(SupportProtocols::LightClient, 1);
                }
                Ev::Advance(i) => {
                    w.advance(ADVANCES[*i as usize % ADVANCES.len()]);
                }
                Ev::Answer(i) => {
                    let n = w.outbox_len();
                    if n > 0 {
                        let k = idx(*i, n);
                        let msg = w.take_request(k).unwrap();
                        let peer = msg.1;
                        if k > 0 {
                            saw_stale = true;
                        }
                        if msg.0 == SupportProtocols::LightClient.protocol_id() {
                            if let Ok(m) = packed::LightClientMessage::from_slice(&msg.2) {
                                match m.to_enum() {
                                    packed::LightClientMessageUnion::GetLastStateProof(r) => {
                                        kind = "proof";
                                        delivered_proof_for = Some(r.last_hash());
                                        // stale if the client meanwhile recorded another request
                                        let rec = before.get(&peer.value()).and_then(|o| o.requested.clone());
                                        if rec != Some(r.last_hash()) {
                                            saw_stale = true;
                                        }
                                    }
                                    packed::LightClientMessageUnion::GetLastState(_) => kind = "last-state",
                                    _ => kind = "fetch-answer",
                                }
                            }
                        }
                        sender = Some(peer.value());
                        for (proto, bytes) in w.honest_replies(&msg) {
                            w.deliver(proto, peer, bytes);
                        }
                    }
                }
                Ev::AnswerState(i) => {
                    let cands: Vec<usize> = {
                        let q = w.shared.sent.lock().unwrap();
                        q.iter()
                            .enumerate()
                            .filter(|(_, (proto, _, d))| {
                                *proto == SupportProtocols::LightClient.protocol_id()
                                    && matches!(
                                        packed::LightClientMessage::from_slice(d).map(|m| m.to_enum()),
                                        Ok(packed::LightClientMessageUnion::GetLastState(_)) | Ok(packed::LightClientMessageUnion::GetLastStateProof(_))
                                    )
                            })
                            .map(|(k, _)| k)
                            .collect()
                    };
                    if !cands.is_empty() {
                        let k = cands[idx(*i, cands.len())];
                        let msg = w.take_request(k).unwrap();
                        let peer = msg.1;
                        if let Ok(m) = packed::LightClientMessage::from_slice(&msg.2) {
                            match m.to_enum() {
                                packed::LightClientMessageUnion::GetLastStateProof(r) => {
                                    kind = "proof";
                                    delivered_proof_for = Some(r.last_hash());
                                    let rec = before.get(&peer.value()).and_then(|o| o.requested.clone());
                                    if rec != Some(r.last_hash()) {
                                        saw_stale = true;
                                    }
                                }
                                _ => kind = "last-state",
                            }
                        }
                        sender = Some(peer.value());
                        for (proto, bytes) in w.honest_replies(&msg) {
                            w.deliver(proto, peer, bytes);
                        }
                    }
                }
                Ev::Announce(s, k) => {
                    let s = *s as usize % n_peers;
                    if let Some(p) = slot[s] {
                        sender = Some(p.value());
                        kind = "last-state";
                        let tip = w.chains[0].tip();
                        let (chain_i, n) = match k % 5 {
                            0 => (0, w.peer(p).map(|x| x.tip).unwrap_or(tip)),
                            1 => {
                                w.chains[0].mine_n(1 + (case.seed % 3));
                                (0, w.chains[0].tip())
                            }
                            2 => (0, tip.saturating_sub(1 + case.seed % 3).max(1)),
                            3 => (1, w.chains[1].tip()),
                            _ => {
                                let last = *last_announced.get(&p.value()).unwrap_or(&tip);
                                if last + 1 > w.chains[0].tip() {
                                    w.chains[0].mine_n(1);
                                }
                                (0, (last + 1).min(w.chains[0].tip()))
                            }
                        };
                        if chain_i == 0 {
                            last_announced.insert(p.value(), n);
                            if let Some(sp) = w.peer_mut(p) {
                                sp.tip = n;
                            }
                        }
                        let bytes = View { chain: &w.chains[chain_i], tip: n }.send_last_state().as_bytes();
                        w.deliver(SupportProtocols::LightClient, p, bytes);
                    }
                }
                Ev::Unsolicited(s, k) => {
                    let s = *s as usize % n_peers;
                    if let Some(p) = slot[s] {
                        sender = Some(p.value());
                        saw_unsolicited = true;
                        let tip = w.peer(p).map(|x| x.tip).unwrap_or(1).max(1);
                        let view = View { chain: &w.chains[0], tip };
                        let bytes = match k % 3 {
                            0 => {
                                kind = "proof";
                                let req = packed::GetLastStateProof::new_builder()
                                    .last_hash(w.chains[0].blocks[tip as usize].hash())
                                    .start_hash(w.chains[0].blocks[0].hash())
                                    .start_number(0u64.pack())
                                    .last_n_blocks(3u64.pack())
                                    .difficulty_boundary(w.chains[0].total_diff[tip as usize].pack())
                                    .build();
                                delivered_proof_for = Some(req.last_hash());
                                wrap_lc(view.send_last_state_proof(&req).0).as_bytes()
                            }
                            1 => {
                                kind = "fetch-answer";
                                let req = packed::GetBlocksProof::new_builder().last_hash(w.chains[0].blocks[tip as usize].hash()).block_hashes(vec![w.chains[0].blocks[1].hash()].pack()).build();
                                crate::lcv::sim::server::blocks_proof_v1_msg(&view.send_blocks_proof(&req)).as_bytes()
                            }
                            _ => {
                                kind = "fetch-answer";
                                let req = packed::GetTransactionsProof::new_builder().last_hash(w.chains[0].blocks[tip as usize].hash()).tx_hashes(vec![w.chains[0].blocks[1].transactions()[0].hash()].pack()).build();
                                crate::lcv::sim::server::txs_proof_v1_msg(&view.send_transactions_proof(&req)).as_bytes()
                            }
                        };
                        w.deliver(SupportProtocols::LightClient, p, bytes);
                    }
                }
                Ev::Invalid(s) => {
                    let s = *s as usize % n_peers;
                    if let Some(p) = slot[s] {
                        // find the oldest pending proof request of p
                        let pos = w.shared.sent.lock().unwrap().iter().position(|(proto, i, d)| {
                            *i == p && *proto == SupportProtocols::LightClient.protocol_id() && matches!(packed::LightClientMessage::from_slice(d).map(|m| m.to_enum()), Ok(packed::LightClientMessageUnion::GetLastStateProof(_)))
                        });
                        if let Some(pos) = pos {
                            let msg = w.take_request(pos).unwrap();
                            sender = Some(p.value());
                            kind = "invalid-proof";
                            for (proto, bytes) in w.honest_replies(&msg) {
                                // corrupt one byte in the middle of the last header's nonce region
                                let mut b = bytes.to_vec();
                                let l = b.len();
                                if l > 60 {
                                    b[40] ^= 0x55;
                                }
                                w.deliver(proto, p, P2pBytes::from(b));
                            }
                        }
                    }
                }
                Ev::FetchHeader(k) => {
                    let n = idx(*k, w.chains[0].blocks.len());
                    let h: H256 = w.chains[0].blocks[n].hash().unpack();
                    let _ = w.chain_rpc().fetch_header(h);
                }
                Ev::FetchTx(k) => {
                    let n = idx(*k, w.chains[0].blocks.len());
                    let h: H256 = w.chains[0].blocks[n].transactions()[0].hash().unpack();
                    let _ = w.tx_rpc().fetch_transaction(h);
                }
            }
            // peers disconnected by the client (timeouts / nothing else here): free their slots
            let client_disconnects: Vec<(PeerIndex, String)> = w.disconnect_log[discon_before..].to_vec();
            for (p, _) in &client_disconnects {
                for s in slot.iter_mut() {
                    if *s == Some(*p) {
                        *s = None;
                    }
                }
            }
            let after = observe(&w);
            let now = w.now;
            // track unobservable request timers from the outbox
            {
                let q = w.shared.sent.lock().unwrap();
                for (proto, i, d) in q.iter() {
                    let already = outbox_before.iter().any(|(pp, ii, dd)| *pp == proto.value() as u8 && *ii == i.value() && dd == d);
                    if already {
                        continue;
                    }
                    if *proto == SupportProtocols::LightClient.protocol_id() {
                        match packed::LightClientMessage::from_slice(d).map(|m| m.to_enum()) {
                            Ok(packed::LightClientMessageUnion::GetBlocksProof(_)) => {
                                req_sent.insert((i.value(), 0), now);
                            }
                            Ok(packed::LightClientMessageUnion::GetTransactionsProof(_)) => {
                                req_sent.insert((i.value(), 1), now);
                            }
                            _ => {}
                        }
                    } else if *proto == SupportProtocols::Sync.protocol_id() {
                        req_sent.insert((i.value(), 2), now);
                    }
                }
            }
            for (pid, o) in &after {
                if o.blocks_proof_hashes.is_none() {
                    req_sent.remove(&(*pid, 0));
                }
                if o.txs_proof_hashes.is_none() {
                    req_sent.remove(&(*pid, 1));
                }
                if !o.has_blocks_request {
                    req_sent.remove(&(*pid, 2));
                }
            }
            let ctx = |pid: usize| format!("step {} event {:?} peer {} before {:?} after {:?}", step, ev, pid, before.get(&pid).map(|o| o.state), after.get(&pid).map(|o| o.state));
            // ---- diagram: allowed-set check
            for (pid, b) in &before {
                let a = match after.get(pid) {
                    Some(a) => a,
                    None => continue, // removed: judged by I3 / I4
                };
                let allowed: Vec<S> = match kind {
                    "tick" => allowed_after_tick(b.state),
                    "last-state" if sender == Some(*pid) => allowed_after_last_state(b.state),
                    "proof" | "invalid-proof" if sender == Some(*pid) => {
                        let mut v = allowed_after_proof(b.state);
                        // a response carrying another last header with an empty proof is handled as a last state
                        v.extend(allowed_after_last_state(b.state));
                        v
                    }
                    // a blocks / transactions proof that only announces a newer last state is handled as a last state
                    "fetch-answer" if sender == Some(*pid) => {
                        let mut v = vec![b.state];
                        v.extend(allowed_after_last_state(b.state));
                        v
                    }
                    // everything else must not move this peer's phase (a copy of a prove state keeps Ready)
                    _ => vec![b.state],
                };
                if !allowed.contains(&a.state) {
                    return finish(Err(Failure::new(format!("transition-not-in-diagram/{}/{:?}->{:?}", kind, b.state, a.state), ctx(*pid))));
                }
                // ---- I2
                if b.proven.is_some() && a.proven.is_none() {
                    return finish(Err(Failure::new(format!("prove-state-discarded/{}", kind), ctx(*pid))));
                }
                // ---- I1
                if a.proven != b.proven {
                    let newp = a.proven.clone().unwrap();
                    let proven_elsewhere = before.iter().any(|(q, o)| q != pid && o.proven.as_ref() == Some(&newp));
                    let child_fast_path = kind == "last-state"
                        && sender == Some(*pid)
                        && b.proven.as_ref().map(|old| {
                            let c = &w.chains[0];
                            match (c.number_of(old), c.number_of(&newp)) {
                                (Some(o), Some(n)) => n == o + 1,
                                _ => false,
                            }
                        }) == Some(true);
                    let requested = (kind == "proof" || kind == "invalid-proof") && sender == Some(*pid) && b.requested.as_ref() == Some(&newp) && delivered_proof_for.as_ref() == Some(&newp);
                    if !(requested || child_fast_path || proven_elsewhere) {
                        return finish(Err(Failure::new(format!("prove-state-changed-without-matching-request/{}", kind), format!("{} requested {:?} delivered-for {:?}", ctx(*pid), b.requested, delivered_proof_for))));
                    }
                    if kind == "invalid-proof" {
                        return finish(Err(Failure::new("prove-state-changed-by-corrupted-proof", ctx(*pid))));
                    }
                }
            }
            // ---- I3: exactly the peers with an expired timer are disconnected by a refresh tick
            if kind == "tick" {
                for (pid, b) in &before {
                    let mut timers: Vec<u64> = vec![];
                    if let Some(t) = b.when_sent {
                        timers.push(t);
                    }
                    if let Some(t) = b.update_ts {
                        timers.push(t);
                    }
                    for k in 0..3u8 {
                        if let Some(t) = req_sent.get(&(*pid, k)) {
                            timers.push(*t);
                        }
                    }
                    let expired = timers.iter().any(|t| now > t + 60_000);
                    if timers.iter().any(|t| now == t + 60_000 || now == t + 60_001 || now + 1 == t + 60_000) {
                        saw_boundary = true;
                    }
                    let disconnected = client_disconnects.iter().any(|(p, _)| p.value() == *pid);
                    if expired && !disconnected {
                        return finish(Err(Failure::new("expired-timer-but-not-disconnected", format!("{} timers {:?} now {}", ctx(*pid), timers, now))));
                    }
                    if !expired && disconnected {
                        return finish(Err(Failure::new("disconnected-without-expired-timer", format!("{} timers {:?} now {}", ctx(*pid), timers, now))));
                    }
                }
            } else if !client_disconnects.is_empty() {
                return finish(Err(Failure::new(format!("client-disconnect-outside-refresh-tick/{}", kind), format!("{:?}", client_disconnects))));
            }
            // ---- I4: a disconnected peer leaves no state; its in-flight fetches become eligible again
            let removed: Vec<usize> = before.keys().filter(|p| !after.contains_key(p)).cloned().collect();
            for pid in removed {
                let b = &before[&pid];
                if w.c().peers.get_state(&PeerIndex::new(pid)).is_some() {
                    return finish(Err(Failure::new("state-left-behind-after-disconnect", ctx(pid))));
                }
                let to_fetch_h: Vec<H256> = w.c().peers.get_headers_to_fetch().iter().map(|h| h.unpack()).collect();
                let to_fetch_t: Vec<H256> = w.c().peers.get_txs_to_fetch().iter().map(|h| h.unpack()).collect();
                for h in b.blocks_proof_hashes.clone().unwrap_or_default() {
                    if w.c().peers.fetching_headers().contains_key(&h.pack()) && !to_fetch_h.contains(&h) {
                        return finish(Err(Failure::new("in-flight-header-fetch-lost-on-disconnect", ctx(pid))));
                    }
                }
                for h in b.txs_proof_hashes.clone().unwrap_or_default() {
                    if w.c().peers.fetching_txs().contains_key(&h.pack()) && !to_fetch_t.contains(&h) {
                        return finish(Err(Failure::new("in-flight-tx-fetch-lost-on-disconnect", ctx(pid))));
                    }
                }
                req_sent.retain(|(p, _), _| *p != pid);
            }
            // bans end the relationship (the real network disconnects a banned peer)
            let banned: Vec<PeerIndex> = w.bans().iter().map(|(p, _)| *p).collect();
            for p in banned {
                if w.peer(p).map(|x| x.connected).unwrap_or(false) {
                    w.disconnect(p);
                    for s in slot.iter_mut() {
                        if *s == Some(p) {
                            *s = None;
                        }
                    }
                    req_sent.retain(|(q, _), _| *q != p.value());
                }
            }
        }
        obs.label(format!("peers:{}", n_peers));
        if saw_stale {
            obs.label("stale-answer");
        }
        if saw_unsolicited {
            obs.label("unsolicited");
        }
        if saw_boundary {
            obs.label("timeout-boundary");
        }
        if saw_stale || saw_unsolicited || saw_boundary {
            use std::hash::{Hash, Hasher};
            let mut h = std::collections::hash_map::DefaultHasher::new();
            for e in &case.events {
                std::mem::discriminant(e).hash(&mut h);
            }
            obs.nontrivial((n_peers, saw_stale, saw_unsolicited, saw_boundary, h.finish()));
        }
        finish(Ok(()))
    }
}
