//! C12 — the stored tip only moves to heavier proven headers with truthful difficulty; the
//! remembered last-N headers are ancestors of the tip; a restart reproduces the triple.

use std::collections::HashMap;

use ckb_network::{bytes::Bytes as P2pBytes, PeerIndex, SupportProtocols};
use ckb_pow::Pow;
use ckb_types::{
    bytes::Bytes,
    core::{BlockBuilder, HeaderView},
    packed::{self, Byte32},
    prelude::*,
    U256,
};
use proptest::prelude::*;
use serde::{Deserialize, Serialize};

use crate::lcv::pbt::*;
use crate::lcv::props::c05::classify_bans;
use crate::lcv::sim::chain::{gen_epochs, mine_header, Chain, TxGen};
use crate::lcv::sim::server::wrap_lc;
use crate::lcv::sim::world::{Cfg, World, START_TIME};

#[derive(Debug, Clone, Serialize, Deserialize)]
pub enum Ev {
    /// slot, branch (0 main, 1 fork)
    Connect(u8, u8),
    Disconnect(u8),
    /// answer honestly the i-th request in flight
    Answer(u16),
    Pump,
    Tick,
    Advance(u16),
    Grow(u8, u8),
    /// the peer in `slot` sends a SendLastState with a child of its proven header whose chain root is forged:
    /// kind 0 inflated total difficulty, 1 deflated, 2 wrong mmr root, 3 child of another parent, 4 genuine child (control)
    ForgedChild(u8, u8, u32),
    /// answer the slot's pending proof request with a last header carrying a forged chain root (re-mined)
    ForgedProof(u8, u32),
    Restart,
    /// two announcements by the peer in `slot`: first an unproven SIBLING of its proven header (same height, chain root forged
    /// to a huge total difficulty, PoW-valid and self-consistent: it is only recorded as the peer's last state), then a child
    /// of the PROVEN header whose parent chain root is forged to be consistent with that sibling
    ForgedSiblingChild(u8, u32),
    /// answer the slot's pending proof request with the requested last header whose parent chain root, headers and MMR proof
    /// are those of the COMPETING branch (same total difficulty at that height): a valid proof of another chain
    SplicedProof(u8),
}

#[derive(Debug, Clone, Serialize, Deserialize)]
pub struct Case {
    pub seed: u64,
    pub len: u8,
    pub last_n: u8,
    pub fork_depth: u8,
    pub fork_extra: u8,
    pub events: Vec<Ev>,
}

pub struct C12;

/// Registry: header hash -> (true total difficulty, parent hash, number)
struct Registry {
    td: HashMap<Byte32, (U256, Byte32, u64)>,
}

impl Registry {
    fn add_chain(&mut self, c: &Chain) {
        for (n, b) in c.blocks.iter().enumerate() {
            self.td.entry(b.hash()).or_insert((c.total_diff[n].clone(), b.parent_hash(), n as u64));
        }
    }
}

fn forged_child(chain: &Chain, parent_n: u64, kind: u8, factor: u32, salt: u64, now: u64) -> (packed::VerifiableHeader, HeaderView) {
    let parent = &chain.blocks[parent_n as usize];
    let (epoch, ct) = chain.epoch_of(parent_n + 1);
    let real_root = chain.chain_root(parent_n);
    let real_td: U256 = real_root.total_difficulty().unpack();
    let f = 2 + factor % 1000;
    let root = match kind % 5 {
        0 => real_root.clone().as_builder().total_difficulty((&real_td * f).pack()).build(),
        1 => real_root.clone().as_builder().total_difficulty((&real_td / f).pack()).build(),
        2 => real_root.clone().as_builder().children_hash([7u8; 32].pack()).build(),
        _ => real_root.clone(),
    };
    let parent_hash = if kind % 5 == 3 { chain.blocks[parent_n.saturating_sub(1) as usize].hash() } else { parent.hash() };
    let ext: Vec<u8> = root.calc_mmr_hash().as_slice().to_vec();
    let block = BlockBuilder::default()
        .parent_hash(parent_hash)
        .number((parent_n + 1).pack())
        .epoch(epoch.pack())
        .compact_target(ct.pack())
        .timestamp((now - 1000 + salt % 500).pack())
        .extension(Some(Bytes::from(ext).pack()))
        .build();
    let (h, _) = crate::lcv::sim::chain::mine_header_bounded(&chain.pow, block.header(), salt as u128, 200_000);
    let vh = packed::VerifiableHeader::new_builder().header(h.data()).uncles_hash(block.calc_uncles_hash()).extension(Pack::pack(&block.extension())).parent_chain_root(root).build();
    (vh, h)
}

/// A PoW-valid header `number` on top of `parent_hash` which commits to the given (forged) parent chain root.
fn forge(chain: &Chain, parent_hash: Byte32, number: u64, root: packed::HeaderDigest, salt: u64, now: u64) -> (packed::VerifiableHeader, HeaderView) {
    let (epoch, ct) = chain.epoch_of(number);
    let ext: Vec<u8> = root.calc_mmr_hash().as_slice().to_vec();
    let block = BlockBuilder::default()
        .parent_hash(parent_hash)
        .number(number.pack())
        .epoch(epoch.pack())
        .compact_target(ct.pack())
        .timestamp((now - 1000 + salt % 500).pack())
        .extension(Some(Bytes::from(ext).pack()))
        .build();
    let (h, _) = crate::lcv::sim::chain::mine_header_bounded(&chain.pow, block.header(), salt as u128, 200_000);
    let vh = packed::VerifiableHeader::new_builder().header(h.data()).uncles_hash(block.calc_uncles_hash()).extension(Pack::pack(&block.extension())).parent_chain_root(root).build();
    (vh, h)
}

impl Property for C12 {
    type Case = Case;
    const ID: &'static str = "C12";

    fn cases(tier: Tier) -> u32 {
        match tier {
            Tier::Quick => 3500,
            Tier::Thorough => 90_000,
        }
    }

    fn rule() -> &'static str {
        "cases: histories over up to 4 peers on a main chain and a competing fork: honest answers in any order, ticks, growth, restarts, announcements of a child of the proven header whose chain root is forged \
         (inflated / deflated total difficulty, wrong MMR root, other parent) or genuine, and proof answers whose last header carries a forged chain root. After every event the stored (tip, total difficulty, last-N) may change only to a header some peer has proven right now, \
         with a strictly greater total difficulty that equals the TRUE cumulative difficulty in the simulator's registry, and last-N = the true ancestors ending at tip-1; a restart reproduces the triple. \
         non-trivial: a forged child / forged last header that passes PoW and its own chain-root commitment was delivered to a peer in a state where it is processed; distinct by (forgery kind, peer phase, last_n, #peers, restart?)"
    }

    fn strategy(_tier: Tier) -> BoxedStrategy<Case> {
        let ev = prop_oneof![
            2 => (0u8..4, 0u8..2).prop_map(|(s, b)| Ev::Connect(s, b)),
            1 => (0u8..4).prop_map(Ev::Disconnect),
            8 => any::<u16>().prop_map(Ev::Answer),
            3 => Just(Ev::Pump),
            3 => Just(Ev::Tick),
            1 => (1u16..9000).prop_map(Ev::Advance),
            3 => (0u8..2, 1u8..6).prop_map(|(b, n)| Ev::Grow(b, n)),
            4 => (0u8..4, 0u8..5, any::<u32>()).prop_map(|(s, k, f)| Ev::ForgedChild(s, k, f)),
            2 => (0u8..4, any::<u32>()).prop_map(|(s, f)| Ev::ForgedProof(s, f)),
            1 => Just(Ev::Restart),
            2 => (0u8..4, any::<u32>()).prop_map(|(s, f)| Ev::ForgedSiblingChild(s, f)),
            2 => (0u8..4).prop_map(Ev::SplicedProof),
        ];
        (any::<u64>(), 4u8..50, 0u8..4, 1u8..6, 1u8..5, prop::collection::vec(ev, 1..50)).prop_map(|(seed, len, last_n, fork_depth, fork_extra, events)| Case { seed, len, last_n, fork_depth, fork_extra, events }).boxed()
    }

    fn run(case: &Case, obs: &mut Obs) -> Result<(), Failure> {
        // the documented long-fork abort (competing branch deeper than last_n) legitimately ends a history
        let r = std::panic::catch_unwind(std::panic::AssertUnwindSafe(|| run_inner(case, obs)));
        crate::verif_hooks::set_rng_seed(None);
        match r {
            Ok(r) => r,
            Err(p) => {
                let (msg, _) = take_last_panic().unwrap_or_default();
                if msg.contains("long fork detected") {
                    obs.label("ended-by-documented-long-fork-abort");
                    Ok(())
                } else if msg.contains("pump livelock") {
                    // request / response ping-pong during long-fork handling: known finding D23 of C04
                    obs.label("ended-by-livelock(C04/D23)");
                    Ok(())
                } else {
                    LAST_PANIC.with(|l| *l.borrow_mut() = Some((msg, String::new())));
                    std::panic::resume_unwind(p)
                }
            }
        }
    }
}

fn run_inner(case: &Case, obs: &mut Obs) -> Result<(), Failure> {
    {
        let last_n = [2u64, 3, 5, 10][case.last_n as usize % 4];
        let epochs = gen_epochs(case.seed, 5, 15, 10);
        let mut chain = Chain::new(epochs, START_TIME, case.seed, Pow::Eaglesong, TxGen { density: 0, ..TxGen::default() });
        chain.mine_n(case.len as u64);
        let f = chain.tip().saturating_sub(case.fork_depth as u64);
        let mut fork = chain.fork_at(f, case.seed ^ 0xabc);
        fork.mine_n(case.fork_depth as u64 + case.fork_extra as u64);
        let cfg = Cfg { last_n, max_outbound: 4, interval: 32, ..Cfg::default() };
        let mut w = World::new(vec![chain, fork], cfg);
        crate::verif_hooks::set_rng_seed(Some(case.seed ^ 0xc12));
        let finish = |r: Result<(), Failure>| {
            crate::verif_hooks::set_rng_seed(None);
            r
        };
        let mut reg = Registry { td: HashMap::new() };
        reg.add_chain(&w.chains[0]);
        reg.add_chain(&w.chains[1]);
        let mut slots: Vec<Option<PeerIndex>> = vec![None; 4];
        let mut restarted = false;
        let mut forged_delivered: Vec<(u8, String)> = vec![];
        let triple = |w: &World| {
            let (td, tip) = w.storage().get_last_state();
            (td, tip.calc_header_hash(), w.storage().get_last_n_headers())
        };
        let mut prev = triple(&w);
        for (step, ev) in case.events.iter().enumerate() {
            let mut was_restart = false;
            match ev {
                Ev::Connect(s, b) => {
                    let s = *s as usize % 4;
                    if slots[s].is_none() {
                        let b = *b as usize % 2;
                        let tip = w.chains[b].tip();
                        slots[s] = Some(w.connect(b, tip, true));
                    }
                }
                Ev::Disconnect(s) => {
                    if let Some(p) = slots[*s as usize % 4].take() {
                        w.disconnect(p);
                    }
                }
                Ev::Answer(i) => {
                    let n = w.outbox_len();
                    if n > 0 {
                        let msg = w.take_request(idx(*i, n)).unwrap();
                        let peer = msg.1;
                        for (proto, bytes) in w.honest_replies(&msg) {
                            w.deliver(proto, peer, bytes);
                        }
                    }
                }
                Ev::Pump => {
                    w.pump();
                }
                Ev::Tick => w.tick(SupportProtocols::LightClient, 0),
                Ev::Advance(ms) => w.advance(*ms as u64),
                Ev::Grow(b, n) => {
                    let b = *b as usize % 2;
                    w.grow(b, *n as u64);
                    reg.add_chain(&w.chains[b]);
                }
                Ev::ForgedChild(s, kind, factor) => {
                    if let Some(p) = slots[*s as usize % 4] {
                        let st = w.c().peers.get_state(&p);
                        let proven = st.as_ref().and_then(|s| s.get_prove_state().map(|ps| ps.get_last_header().header().clone()));
                        let sp = w.peer(p).unwrap().clone();
                        // child of the proven header if there is one, else of the peer's tip
                        let parent_n = proven.as_ref().map(|h| h.number()).unwrap_or(sp.tip);
                        let c = &w.chains[sp.chain];
                        if (parent_n as usize) < c.blocks.len() && proven.as_ref().map(|h| h.hash() == c.blocks[parent_n as usize].hash()).unwrap_or(true) {
                            let (vh, h) = if kind % 5 == 4 {
                                // genuine child: the chain grows by one block
                                if parent_n == c.tip() {
                                    let ci = sp.chain;
                                    w.chains[ci].mine_n(1);
                                    reg.add_chain(&w.chains[ci]);
                                }
                                let c = &w.chains[sp.chain];
                                (c.verifiable_header(parent_n + 1), c.blocks[parent_n as usize + 1].header())
                            } else {
                                forged_child(c, parent_n, *kind, *factor, case.seed ^ step as u64, w.now)
                            };
                            // true cumulative difficulty of the announced header: parent's true total + its own difficulty
                            let ptd = reg.td.get(&w.chains[sp.chain].blocks[parent_n as usize].hash()).map(|x| x.0.clone()).unwrap_or_default();
                            let parent_hash_used = h.parent_hash();
                            reg.td.entry(h.hash()).or_insert((&ptd + h.difficulty(), parent_hash_used, parent_n + 1));
                            if kind % 5 != 4 {
                                let phase = st.map(|s| s.to_string().split(' ').next().unwrap_or("").to_string()).unwrap_or_default();
                                forged_delivered.push((*kind % 5, phase));
                            }
                            let bytes = wrap_lc(packed::SendLastState::new_builder().last_header(vh).build()).as_bytes();
                            w.deliver(SupportProtocols::LightClient, p, bytes);
                        }
                    }
                }
                Ev::ForgedSiblingChild(s, factor) => {
                    if let Some(p) = slots[*s as usize % 4] {
                        let st = w.c().peers.get_state(&p);
                        let proven = st.as_ref().and_then(|s| s.get_prove_state().map(|ps| ps.get_last_header().header().clone()));
                        let sp = w.peer(p).unwrap().clone();
                        if let Some(ph) = proven {
                            let n = ph.number();
                            let c = &w.chains[sp.chain];
                            if n >= 2 && (n as usize) < c.blocks.len() && c.blocks[n as usize].hash() == ph.hash() {
                                let f = 2 + factor % 100_000;
                                // X: sibling of the proven header P (parent = block n-1), chain root of 0..=n-1 with an inflated total
                                let root_x = c.chain_root(n - 1);
                                let td_x: U256 = root_x.total_difficulty().unpack();
                                let root_x = root_x.as_builder().total_difficulty((&td_x * f).pack()).build();
                                let (vx, hx) = forge(c, c.blocks[(n - 1) as usize].hash(), n, root_x, case.seed ^ (step as u64) << 8, w.now);
                                let x_total: U256 = &td_x * f + hx.difficulty();
                                // C: child of the proven P, chain root of 0..=n forged to agree with X
                                let root_c = c.chain_root(n).as_builder().total_difficulty(x_total.pack()).build();
                                let (vc, hc) = forge(c, ph.hash(), n + 1, root_c, case.seed ^ (step as u64) << 8 ^ 1, w.now);
                                let ptd_x = reg.td.get(&c.blocks[(n - 1) as usize].hash()).map(|x| x.0.clone()).unwrap_or_default();
                                let ptd_c = reg.td.get(&ph.hash()).map(|x| x.0.clone()).unwrap_or_default();
                                reg.td.entry(hx.hash()).or_insert((&ptd_x + hx.difficulty(), hx.parent_hash(), n));
                                reg.td.entry(hc.hash()).or_insert((&ptd_c + hc.difficulty(), hc.parent_hash(), n + 1));
                                let phase = st.map(|s| s.to_string().split(' ').next().unwrap_or("").to_string()).unwrap_or_default();
                                forged_delivered.push((5, phase));
                                obs.label("forged-sibling-then-forged-child");
                                let bytes = wrap_lc(packed::SendLastState::new_builder().last_header(vx).build()).as_bytes();
                                w.deliver(SupportProtocols::LightClient, p, bytes);
                                let bytes = wrap_lc(packed::SendLastState::new_builder().last_header(vc).build()).as_bytes();
                                w.deliver(SupportProtocols::LightClient, p, bytes);
                            }
                        }
                    }
                }
                Ev::SplicedProof(s) => {
                    if let Some(p) = slots[*s as usize % 4] {
                        let pos = w.shared.sent.lock().unwrap().iter().position(|(proto, i, d)| {
                            *i == p && *proto == SupportProtocols::LightClient.protocol_id() && matches!(packed::LightClientMessage::from_slice(d).map(|m| m.to_enum()), Ok(packed::LightClientMessageUnion::GetLastStateProof(_)))
                        });
                        if let Some(pos) = pos {
                            let msg = w.take_request(pos).unwrap();
                            let sp = w.peer(p).unwrap().clone();
                            let other = 1 - sp.chain.min(1);
                            if let Ok(packed::LightClientMessageUnion::GetLastStateProof(req)) = packed::LightClientMessage::from_slice(&msg.2).map(|m| m.to_enum()) {
                                let mine = &w.chains[sp.chain];
                                let theirs = &w.chains[other];
                                if let Some(last_n) = mine.number_of(&req.last_hash()) {
                                    let view = crate::lcv::sim::server::View { chain: mine, tip: sp.tip.max(last_n) };
                                    let (honest, layout) = view.send_last_state_proof(&req);
                                    if let Some(layout) = layout {
                                        let nums = layout.numbers();
                                        if last_n >= 1
                                            && (last_n as usize) < theirs.blocks.len()
                                            && theirs.blocks[last_n as usize].hash() != mine.blocks[last_n as usize].hash()
                                            && theirs.total_diff[(last_n - 1) as usize] == mine.total_diff[(last_n - 1) as usize]
                                            && !nums.is_empty()
                                        {
                                            let last = honest.last_header().as_builder().parent_chain_root(theirs.chain_root(last_n - 1)).build();
                                            let headers: Vec<packed::VerifiableHeader> = nums.iter().map(|n| theirs.verifiable_header(*n)).collect();
                                            let spliced = packed::SendLastStateProof::new_builder()
                                                .last_header(last)
                                                .headers(packed::VerifiableHeaderVec::new_builder().set(headers).build())
                                                .proof(theirs.proof_for(last_n, &nums))
                                                .build();
                                            let phase = w.c().peers.get_state(&p).map(|s| s.to_string().split(' ').next().unwrap_or("").to_string()).unwrap_or_default();
                                            forged_delivered.push((6, phase));
                                            obs.label("spliced-proof-of-the-competing-branch");
                                            w.deliver(SupportProtocols::LightClient, p, wrap_lc(spliced).as_bytes());
                                        }
                                    }
                                }
                            }
                        }
                    }
                }
                Ev::ForgedProof(s, factor) => {
                    if let Some(p) = slots[*s as usize % 4] {
                        let pos = w.shared.sent.lock().unwrap().iter().position(|(proto, i, d)| {
                            *i == p && *proto == SupportProtocols::LightClient.protocol_id() && matches!(packed::LightClientMessage::from_slice(d).map(|m| m.to_enum()), Ok(packed::LightClientMessageUnion::GetLastStateProof(_)))
                        });
                        if let Some(pos) = pos {
                            let msg = w.take_request(pos).unwrap();
                            for (proto, bytes) in w.honest_replies(&msg) {
                                // replace the last header's chain root by an inflated one, recommit, re-mine
                                if let Ok(packed::LightClientMessageUnion::SendLastStateProof(pr)) = packed::LightClientMessage::from_slice(&bytes).map(|m| m.to_enum()) {
                                    let lh = pr.last_header();
                                    let root = lh.parent_chain_root();
                                    let td: U256 = root.total_difficulty().unpack();
                                    let forged_root = root.as_builder().total_difficulty((&td * (2 + factor % 100)).pack()).build();
                                    let ext: packed::Bytes = Bytes::from(forged_root.calc_mmr_hash().as_slice().to_vec()).pack();
                                    let extra = ckb_types::core::ExtraHashView::new(lh.uncles_hash(), Some(ext.calc_raw_data_hash())).extra_hash();
                                    let hv: HeaderView = lh.header().into_view();
                                    let (h, _) = crate::lcv::sim::chain::mine_header_bounded(&w.chains[0].pow, hv.as_advanced_builder().extra_hash(extra).build(), *factor as u128, 200_000);
                                    let true_parent_td = reg.td.get(&hv.parent_hash()).map(|x| x.0.clone()).unwrap_or_default();
                                    reg.td.entry(h.hash()).or_insert((&true_parent_td + h.difficulty(), hv.parent_hash(), hv.number()));
                                    let lh2 = lh.as_builder().header(h.data()).extension(Pack::<packed::BytesOpt>::pack(&Some(ext))).parent_chain_root(forged_root).build();
                                    let m = wrap_lc(pr.as_builder().last_header(lh2).build()).as_bytes();
                                    forged_delivered.push((9, "proof".into()));
                                    w.deliver(proto, p, m);
                                } else {
                                    w.deliver(proto, p, bytes);
                                }
                            }
                        }
                    }
                }
                Ev::Restart => {
                    let before = triple(&w);
                    w.restart();
                    let after = triple(&w);
                    if before != after {
                        return finish(Err(Failure::new("restart-does-not-reproduce-tip-difficulty-last-n", format!("step {}", step))));
                    }
                    for s in slots.iter_mut() {
                        *s = None;
                    }
                    restarted = true;
                    was_restart = true;
                }
            }
            // clean slots of peers disconnected by the client
            for s in slots.iter_mut() {
                if let Some(p) = *s {
                    if !w.peer(p).map(|x| x.connected).unwrap_or(false) {
                        *s = None;
                    }
                }
            }
            // banned peers are disconnected by the network
            let banned: Vec<PeerIndex> = w.bans().iter().map(|(p, _)| *p).collect();
            for p in banned {
                if w.peer(p).map(|x| x.connected).unwrap_or(false) {
                    w.disconnect(p);
                    for s in slots.iter_mut() {
                        if *s == Some(p) {
                            *s = None;
                        }
                    }
                }
            }
            let cur = triple(&w);
            if cur != prev && !was_restart {
                let (td, tip_hash, last_headers) = cur.clone();
                let desc = format!("step {} event {:?}: tip {:#x} td {:#x} (was {:#x})", step, ev, tip_hash, td, prev.0);
                if tip_hash != prev.1 {
                    // (1) proven by some peer right now
                    let proven_now = w.c().peers.get_all_prove_states().iter().any(|(_, ps)| ps.get_last_header().header().hash() == tip_hash);
                    if !proven_now {
                        return finish(Err(Failure::new("tip-moved-to-a-header-no-peer-has-proven", desc)));
                    }
                    // (2) strictly heavier
                    if td <= prev.0 {
                        return finish(Err(Failure::new("tip-moved-without-greater-total-difficulty", desc)));
                    }
                } else if td != prev.0 {
                    return finish(Err(Failure::new("stored-difficulty-changed-without-tip-change", desc)));
                }
                // (3) truthful difficulty
                match reg.td.get(&tip_hash) {
                    Some((true_td, _, _)) => {
                        if &td != true_td {
                            return finish(Err(Failure::new("stored-total-difficulty-is-not-the-true-cumulative-difficulty", format!("{} true {:#x}", desc, true_td))));
                        }
                    }
                    None => return finish(Err(Failure::new("tip-is-an-unknown-header", desc))),
                }
                // (4) last-N = true ancestors, contiguous, ending at tip - 1
                let mut expect_hash = reg.td.get(&tip_hash).map(|x| x.1.clone());
                let mut expect_num = reg.td.get(&tip_hash).map(|x| x.2).unwrap_or(0);
                for (n, h) in last_headers.iter().rev() {
                    if expect_num == 0 {
                        return finish(Err(Failure::new("last-n-reaches-below-genesis", format!("{} stored last-N numbers {:?}", desc, last_headers.iter().map(|(n, _)| *n).collect::<Vec<_>>()))));
                    }
                    expect_num -= 1;
                    if *n != expect_num || Some(h) != expect_hash.as_ref() {
                        return finish(Err(Failure::new("stored-last-n-is-not-the-ancestor-chain-of-the-tip", format!("{} at number {} (expected {})", desc, n, expect_num))));
                    }
                    expect_hash = reg.td.get(h).map(|x| x.1.clone());
                }
            }
            prev = cur;
        }
        // final: with an honest peer on the heaviest branch the tip cannot be frozen below it
        let heaviest = if w.chains[1].total_diff.last() > w.chains[0].total_diff.last() { 1 } else { 0 };
        for s in slots.iter_mut() {
            if let Some(p) = s.take() {
                w.disconnect(p);
            }
        }
        let tip = w.chains[heaviest].tip();
        w.connect(heaviest, tip, true);
        // honest miners keep extending the heaviest branch: it becomes strictly heavier than whatever truthful
        // total difficulty is stored (an inflated stored value was already flagged above)
        for _ in 0..40 {
            w.grow(heaviest, 1);
            let t = w.chains[heaviest].tip();
            if w.chains[heaviest].total_diff[t as usize] > w.storage().get_last_state().0 {
                break;
            }
        }
        reg.add_chain(&w.chains[heaviest]);
        let tipn = w.chains[heaviest].tip();
        let want = w.chains[heaviest].blocks[tipn as usize].hash();
        let r = std::panic::catch_unwind(std::panic::AssertUnwindSafe(|| w.drain(400, |w| w.storage().get_tip_header().calc_header_hash() == want)));
        let stored = w.storage().get_tip_header().calc_header_hash();
        obs.label(format!("last_n:{}", last_n));
        if restarted {
            obs.label("restart");
        }
        let frozen = match r {
            Err(_) => {
                // the documented long-fork abort is possible when the competing branch forks deeper than last_n
                obs.label("ended-by-long-fork-abort");
                false
            }
            Ok(res) => !res.goal && stored != want,
        };
        if frozen {
            if classify_bans(&w).is_err() {
                obs.label("final-sync-ended-by-ban(C05)");
            } else {
                let (std_td, _) = w.storage().get_last_state();
                let true_best = w.chains[heaviest].total_diff[tipn as usize].clone();
                if std_td >= true_best {
                    return finish(Err(Failure::new("tip-frozen-on-a-header-honest-peers-cannot-surpass", format!("stored td {:#x} >= best honest td {:#x}", std_td, true_best))));
                }
                obs.label("final-not-converged(other reason; C05/C04)");
            }
        }
        if !forged_delivered.is_empty() {
            obs.nontrivial((forged_delivered.clone(), last_n, restarted));
        }
        finish(Ok(()))
    }
}
