//! C02 — only data committed by a proven header is ever indexed or served as fetched.
//! A world with pending requests (matched blocks awaiting proof / download, fetch_header,
//! fetch_transaction) receives one honest, unsolicited or mutated SendBlock / SendBlocksProof /
//! SendTransactionsProof; the oracle checks genuineness of everything served right away and the
//! reference index after the sync was finished with honest peers.

use std::collections::BTreeSet;

use ckb_network::{bytes::Bytes as P2pBytes, PeerIndex, SupportProtocols};
use ckb_types::{
    bytes::Bytes,
    core::{BlockView, Capacity, TransactionBuilder},
    packed::{self, Byte32, CellOutput},
    prelude::*,
    H256,
};
use proptest::prelude::*;
use serde::{Deserialize, Serialize};
use serde_json::json;

use crate::lcv::oracle::index::{all_cells, all_txs, Reg};
use crate::lcv::pbt::*;
use crate::lcv::props::common::*;
use crate::lcv::sim::chain::Chain;
use crate::lcv::sim::server::{blocks_proof_v1_msg, send_block_msg, txs_proof_v1_msg, wrap_lc, View};
use crate::lcv::sim::world::World;
use crate::service::{ChainRpc, TransactionRpc};

#[derive(Debug, Clone, Serialize, Deserialize)]
pub struct Attack {
    /// which kind of in-flight request is answered: 0 GetBlocks, 1 GetBlocksProof, 2 GetTransactionsProof, 3 none (unsolicited)
    pub target: u8,
    pub pick: u16,
    /// mutation kind (interpreted per message type); 0 = honest
    pub kind: u8,
    pub sub: u8,
    pub val: u64,
    /// delivered by: 0 the asked peer, 1 another connected peer, 2 a new unproven peer
    pub from: u8,
}

#[derive(Debug, Clone, Serialize, Deserialize)]
pub struct Case {
    pub chain: ChainParams,
    pub net: NetParams,
    pub initial: Vec<RegSpec>,
    pub before: Vec<Step>,
    pub attacks: Vec<Attack>,
}

pub struct C02;

pub const BLOCK_KINDS: [&str; 8] = ["honest", "extra-forged-tx", "drop-tx", "rewrite-output-lock", "change-output-data", "change-witness", "body-of-another-block", "unsolicited-block"];
pub const BP_KINDS: [&str; 10] = ["honest", "extra-header", "drop-header", "replace-header", "duplicate-header", "perturb-proof", "claim-found-as-missing", "claim-missing-as-found", "v1-wrong-uncles-hash", "v1-wrong-extension"];
pub const TP_KINDS: [&str; 10] = ["honest", "merkle-index", "merkle-lemma", "witnesses-root", "move-tx-to-other-header", "extra-tx", "altered-tx", "claim-found-as-missing", "perturb-proof", "smuggle-requested-tx-into-another-block"];

fn flip32(b: &Byte32, x: u64) -> Byte32 {
    let mut v = b.as_slice().to_vec();
    v[(x as usize / 8) % 32] ^= 1 << (x % 8);
    Byte32::from_slice(&v).unwrap()
}

fn registered_lock(sim: &Sim) -> packed::Script {
    sim.regs.values().find(|r| r.stype == crate::lcv::oracle::index::SType::Lock).map(|r| r.script.clone()).unwrap_or_else(|| crate::lcv::sim::chain::universe_lock(0))
}

fn mutate_block(sim: &Sim, chain: &Chain, block: &BlockView, a: &Attack) -> packed::Block {
    let kind = BLOCK_KINDS[a.kind as usize % BLOCK_KINDS.len()];
    let lock = registered_lock(sim);
    let txs = block.transactions();
    let out = match kind {
        "extra-forged-tx" => {
            let fake = TransactionBuilder::default()
                .output(CellOutput::new_builder().capacity(Capacity::shannons(777_0000_0000 + a.val % 1000).pack()).lock(lock).build())
                .output_data(Bytes::new().pack())
                .build();
            block.as_advanced_builder().transaction(fake).build_unchecked()
        }
        "drop-tx" => {
            if txs.len() > 1 {
                let k = 1 + (a.val as usize % (txs.len() - 1));
                let kept: Vec<_> = txs.iter().enumerate().filter(|(i, _)| *i != k).map(|(_, t)| t.clone()).collect();
                block.as_advanced_builder().set_transactions(kept).build_unchecked()
            } else {
                block.as_advanced_builder().set_transactions(vec![]).build_unchecked()
            }
        }
        "rewrite-output-lock" | "change-output-data" | "change-witness" => {
            let k = a.val as usize % txs.len();
            let t = &txs[k];
            let nt = match kind {
                "rewrite-output-lock" => {
                    let outs: Vec<CellOutput> = t.outputs().into_iter().enumerate().map(|(i, o)| if i == 0 { o.as_builder().lock(lock.clone()).build() } else { o }).collect();
                    t.as_advanced_builder().set_outputs(outs).build()
                }
                "change-output-data" => {
                    let datas: Vec<packed::Bytes> = t.outputs_data().into_iter().enumerate().map(|(i, d)| if i == 0 { Bytes::from(vec![0x66; 1 + (a.val % 5) as usize]).pack() } else { d }).collect();
                    t.as_advanced_builder().set_outputs_data(datas).build()
                }
                _ => t.as_advanced_builder().witness(Bytes::from(vec![0x42; 3]).pack()).build(),
            };
            let new_txs: Vec<_> = txs.iter().enumerate().map(|(i, x)| if i == k { nt.clone() } else { x.clone() }).collect();
            block.as_advanced_builder().set_transactions(new_txs).build_unchecked()
        }
        "body-of-another-block" => {
            let other = &chain.blocks[(block.number() as usize + 1 + a.val as usize % 3) % chain.blocks.len()];
            block.as_advanced_builder().set_transactions(other.transactions()).build_unchecked()
        }
        _ => block.clone(),
    };
    out.data()
}

fn mutate_blocks_proof(chain: &Chain, v1: &packed::SendBlocksProofV1, a: &Attack) -> packed::LightClientMessage {
    let kind = BP_KINDS[a.kind as usize % BP_KINDS.len()];
    let mut headers: Vec<packed::Header> = v1.headers().into_iter().collect();
    let mut uncles: Vec<Byte32> = v1.blocks_uncles_hash().into_iter().collect();
    let mut exts: Vec<packed::BytesOpt> = v1.blocks_extension().into_iter().collect();
    let mut missing: Vec<Byte32> = v1.missing_block_hashes().into_iter().collect();
    let mut proof: Vec<packed::HeaderDigest> = v1.proof().into_iter().collect();
    let n = headers.len();
    let k = if n == 0 { 0 } else { a.val as usize % n };
    let other_n = (a.val as usize % chain.blocks.len().max(2)).max(1);
    match kind {
        "extra-header" => {
            let b = &chain.blocks[other_n];
            headers.push(b.data().header());
            uncles.push(b.calc_uncles_hash());
            exts.push(Pack::pack(&b.extension()));
        }
        "drop-header" if n > 0 => {
            headers.remove(k);
            uncles.remove(k);
            exts.remove(k);
        }
        "replace-header" if n > 0 => {
            let b = &chain.blocks[other_n];
            headers[k] = b.data().header();
            uncles[k] = b.calc_uncles_hash();
            exts[k] = Pack::pack(&b.extension());
        }
        "duplicate-header" if n > 0 => {
            headers.push(headers[k].clone());
            uncles.push(uncles[k].clone());
            exts.push(exts[k].clone());
        }
        "perturb-proof" => {
            if proof.is_empty() {
                proof.push(chain.blocks[other_n].header().digest_for_test());
            } else {
                let j = a.val as usize % proof.len();
                let p = proof[j].clone();
                proof[j] = p.clone().as_builder().children_hash(flip32(&p.children_hash(), a.val)).build();
            }
        }
        "claim-found-as-missing" if n > 0 => {
            let h = headers.remove(k);
            uncles.remove(k);
            exts.remove(k);
            missing.push(h.calc_header_hash());
        }
        "claim-missing-as-found" => {
            if let Some(h) = missing.pop() {
                // "find" it: present some other genuine header under that claim (the hash cannot match)
                let b = &chain.blocks[other_n];
                let _ = h;
                headers.push(b.data().header());
                uncles.push(b.calc_uncles_hash());
                exts.push(Pack::pack(&b.extension()));
            }
        }
        "v1-wrong-uncles-hash" if n > 0 => uncles[k] = flip32(&uncles[k], a.val),
        "v1-wrong-extension" if n > 0 => exts[k] = Pack::pack(&Some(Bytes::from(vec![1u8, 2, 3]).pack())),
        _ => {}
    }
    // structurally consistent variants: the MMR proof is regenerated for exactly the headers that are returned, so that
    // the request-matching and missing-hash logic is reached instead of everything dying at the proof check
    if a.sub % 4 < 2 && matches!(kind, "extra-header" | "drop-header" | "claim-found-as-missing" | "replace-header" | "claim-missing-as-found") {
        let last_n: u64 = v1.last_header().header().raw().number().unpack();
        let mut triples: Vec<(u64, packed::Header, Byte32, packed::BytesOpt)> = headers
            .iter()
            .cloned()
            .zip(uncles.iter().cloned())
            .zip(exts.iter().cloned())
            .map(|((h, u), e)| (Unpack::<u64>::unpack(&h.raw().number()), h, u, e))
            .filter(|(n, _, _, _)| *n < last_n)
            .collect();
        triples.sort_by_key(|t| t.0);
        triples.dedup_by_key(|t| t.0);
        let numbers: Vec<u64> = triples.iter().map(|t| t.0).collect();
        proof = chain.proof_for(last_n, &numbers).into_iter().collect();
        headers = triples.iter().map(|t| t.1.clone()).collect();
        uncles = triples.iter().map(|t| t.2.clone()).collect();
        exts = triples.iter().map(|t| t.3.clone()).collect();
    }
    let v1 = packed::SendBlocksProofV1::new_builder()
        .last_header(v1.last_header())
        .proof(packed::HeaderDigestVec::new_builder().set(proof).build())
        .headers(packed::HeaderVec::new_builder().set(headers.clone()).build())
        .missing_block_hashes(missing.clone().pack())
        .blocks_uncles_hash(uncles.pack())
        .blocks_extension(packed::BytesOptVec::new_builder().set(exts).build())
        .build();
    if a.sub % 2 == 0 {
        blocks_proof_v1_msg(&v1)
    } else {
        wrap_lc(packed::SendBlocksProof::new_builder().last_header(v1.last_header()).proof(v1.proof()).headers(v1.headers()).missing_block_hashes(v1.missing_block_hashes()).build())
    }
}

fn mutate_txs_proof(chain: &Chain, v1: &packed::SendTransactionsProofV1, a: &Attack, view: &View, req: &packed::GetTransactionsProof) -> packed::LightClientMessage {
    let kind = TP_KINDS[a.kind as usize % TP_KINDS.len()];
    if kind == "smuggle-requested-tx-into-another-block" && v1.filtered_blocks().len() >= 2 {
        // Two requested transactions live in different blocks. The peer answers with ONE filtered block (a consistent answer
        // to the request for that block's transactions alone: genuine header, MMR proof, Merkle proof) and appends the other
        // requested transaction(s) to it with tree indices that do not exist, optionally preceded by junk lemmas.
        let fbs: Vec<packed::FilteredBlock> = v1.filtered_blocks().into_iter().collect();
        let k = a.val as usize % fbs.len();
        let j = (k + 1 + (a.val as usize / 7) % (fbs.len() - 1)) % fbs.len();
        let keep: Vec<Byte32> = fbs[k].transactions().into_iter().map(|t| t.calc_tx_hash()).collect();
        let smuggled: Vec<packed::Transaction> = fbs[j].transactions().into_iter().collect();
        let sub_req = req.clone().as_builder().tx_hashes(keep.pack()).build();
        let base = view.send_transactions_proof(&sub_req);
        if base.filtered_blocks().len() == 1 {
            let fb = base.filtered_blocks().get(0).unwrap();
            let mut txs: Vec<packed::Transaction> = fb.transactions().into_iter().collect();
            let honest_idx: Vec<u32> = fb.proof().indices().into_iter().map(|v| Unpack::<u32>::unpack(&v)).collect();
            // the proof library sorts the leaves by value and pairs them with the indices in the given order
            let mut real_sorted: Vec<Byte32> = txs.iter().map(|t| t.calc_tx_hash()).collect();
            real_sorted.sort();
            let real_index: std::collections::HashMap<Byte32, u32> = real_sorted.into_iter().zip(honest_idx.into_iter()).collect();
            let mut lem: Vec<Byte32> = vec![];
            let junk = (a.val / 3) as usize % 3;
            for t in smuggled.iter() {
                txs.push(t.clone());
            }
            let mut all_sorted: Vec<Byte32> = txs.iter().map(|t| t.calc_tx_hash()).collect();
            all_sorted.sort();
            let mut bogus = 1000 + (a.val % 2) as u32;
            // variant: the smuggled transactions get no index at all (more transactions than indices)
            let no_index = (a.val / 5) % 3 == 0;
            let idx: Vec<u32> = if no_index {
                fb.proof().indices().into_iter().map(|v| Unpack::<u32>::unpack(&v)).collect()
            } else {
                all_sorted
                .iter()
                .map(|h| {
                    real_index.get(h).cloned().unwrap_or_else(|| {
                        bogus += 2;
                        bogus
                    })
                })
                .collect()
            };
            let junk = if no_index { 0 } else { junk };
            for q in 0..junk.min(smuggled.len() + 1) {
                lem.push([0x40u8 + q as u8; 32].pack());
            }
            lem.extend(fb.proof().lemmas().into_iter());
            let fb2 = fb.clone().as_builder().transactions(txs.pack()).proof(fb.proof().as_builder().indices(idx.pack()).lemmas(lem.pack()).build()).build();
            // the remaining requested hashes (other blocks, non-existent ones) are reported missing
            let present: Vec<Byte32> = fb2.transactions().into_iter().map(|t| t.calc_tx_hash()).collect();
            let missing: Vec<Byte32> = req.tx_hashes().into_iter().filter(|h| !present.contains(h)).collect();
            let out = base.clone().as_builder().filtered_blocks(packed::FilteredBlockVec::new_builder().push(fb2).build()).missing_tx_hashes(missing.pack()).build();
            return if a.sub % 2 == 0 {
                txs_proof_v1_msg(&out)
            } else {
                wrap_lc(packed::SendTransactionsProof::new_builder().last_header(out.last_header()).proof(out.proof()).filtered_blocks(out.filtered_blocks()).missing_tx_hashes(out.missing_tx_hashes()).build())
            };
        }
    }
    let mut fbs: Vec<packed::FilteredBlock> = v1.filtered_blocks().into_iter().collect();
    let mut missing: Vec<Byte32> = v1.missing_tx_hashes().into_iter().collect();
    let mut proof: Vec<packed::HeaderDigest> = v1.proof().into_iter().collect();
    let mut uncles: Vec<Byte32> = v1.blocks_uncles_hash().into_iter().collect();
    let mut exts: Vec<packed::BytesOpt> = v1.blocks_extension().into_iter().collect();
    let n = fbs.len();
    let k = if n == 0 { 0 } else { a.val as usize % n };
    let other_n = (a.val as usize % chain.blocks.len().max(2)).max(1);
    if n > 0 {
        let fb = fbs[k].clone();
        match kind {
            "merkle-index" => {
                let idx: Vec<u32> = fb.proof().indices().into_iter().map(|v| Unpack::<u32>::unpack(&v) + 1).collect();
                fbs[k] = fb.clone().as_builder().proof(fb.proof().as_builder().indices(idx.pack()).build()).build();
            }
            "merkle-lemma" => {
                let mut lem: Vec<Byte32> = fb.proof().lemmas().into_iter().collect();
                if lem.is_empty() {
                    lem.push([5u8; 32].pack());
                } else {
                    let j = a.val as usize % lem.len();
                    lem[j] = flip32(&lem[j], a.val);
                }
                fbs[k] = fb.clone().as_builder().proof(fb.proof().as_builder().lemmas(lem.pack()).build()).build();
            }
            "witnesses-root" => fbs[k] = fb.clone().as_builder().witnesses_root(flip32(&fb.witnesses_root(), a.val)).build(),
            "move-tx-to-other-header" => {
                let b = &chain.blocks[other_n];
                fbs[k] = fb.clone().as_builder().header(b.data().header()).build();
                uncles[k] = b.calc_uncles_hash();
                exts[k] = Pack::pack(&b.extension());
            }
            "extra-tx" => {
                let mut txs: Vec<packed::Transaction> = fb.transactions().into_iter().collect();
                txs.push(chain.blocks[other_n].transactions()[0].data());
                fbs[k] = fb.clone().as_builder().transactions(txs.pack()).build();
            }
            "altered-tx" => {
                let mut txs: Vec<packed::Transaction> = fb.transactions().into_iter().collect();
                if !txs.is_empty() {
                    let t = txs[0].clone().into_view();
                    txs[0] = t.as_advanced_builder().witness(Bytes::from(vec![9u8; 2]).pack()).build().data();
                }
                fbs[k] = fb.clone().as_builder().transactions(txs.pack()).build();
            }
            "claim-found-as-missing" => {
                for t in fb.transactions().into_iter() {
                    missing.push(t.calc_tx_hash());
                }
                fbs.remove(k);
                uncles.remove(k);
                exts.remove(k);
            }
            _ => {}
        }
    }
    if kind == "perturb-proof" {
        if proof.is_empty() {
            proof.push(Default::default());
        } else {
            let j = a.val as usize % proof.len();
            let p = proof[j].clone();
            proof[j] = p.clone().as_builder().children_hash(flip32(&p.children_hash(), a.val)).build();
        }
    }
    let v1 = packed::SendTransactionsProofV1::new_builder()
        .last_header(v1.last_header())
        .proof(packed::HeaderDigestVec::new_builder().set(proof).build())
        .filtered_blocks(packed::FilteredBlockVec::new_builder().set(fbs).build())
        .missing_tx_hashes(missing.pack())
        .blocks_uncles_hash(uncles.pack())
        .blocks_extension(packed::BytesOptVec::new_builder().set(exts).build())
        .build();
    if a.sub % 2 == 0 {
        txs_proof_v1_msg(&v1)
    } else {
        wrap_lc(packed::SendTransactionsProof::new_builder().last_header(v1.last_header()).proof(v1.proof()).filtered_blocks(v1.filtered_blocks()).missing_tx_hashes(v1.missing_tx_hashes()).build())
    }
}

trait DigestForTest {
    fn digest_for_test(&self) -> packed::HeaderDigest;
}
impl DigestForTest for ckb_types::core::HeaderView {
    fn digest_for_test(&self) -> packed::HeaderDigest {
        use ckb_types::utilities::merkle_mountain_range::HeaderDigest as _;
        self.digest()
    }
}

fn hexu(v: &serde_json::Value) -> u64 {
    v.as_str().and_then(|s| u64::from_str_radix(s.trim_start_matches("0x"), 16).ok()).unwrap_or(u64::MAX)
}

/// Everything the RPC serves must be a genuine fact of the proven chain (exactness half of the index oracle plus
/// get_header / get_transaction for a probe set).
fn check_genuine(w: &World, chain: &Chain, regs: &[Reg], probe_headers: &BTreeSet<Byte32>, probe_txs: &BTreeSet<Byte32>) -> Result<(), Failure> {
    for reg in regs {
        for c in all_cells(w, reg, 100).map_err(|e| Failure::new("rpc-error", e))? {
            let txh = c["out_point"]["tx_hash"].as_str().unwrap_or("").to_string();
            let idx = hexu(&c["out_point"]["index"]) as u32;
            let found = chain.cells.iter().find(|(op, _)| format!("{:#x}", op.tx_hash()) == txh && Unpack::<u32>::unpack(&op.index()) == idx);
            match found {
                None => return Err(Failure::new("cell-not-on-the-proven-chain", format!("{}", c))),
                Some((_, ci)) => {
                    let cap: Capacity = ci.output.capacity().unpack();
                    let lock_js: ckb_jsonrpc_types::Script = ci.output.lock().into();
                    let exact = hexu(&c["block_number"]) == ci.block
                        && hexu(&c["tx_index"]) == ci.tx_index as u64
                        && hexu(&c["output"]["capacity"]) == cap.as_u64()
                        && c["output"]["lock"] == serde_json::to_value(lock_js).unwrap()
                        && c["output_data"].as_str().map(|s| s == format!("0x{}", crate::lcv::oracle::index::hex(&ci.data))).unwrap_or(false);
                    if !exact {
                        return Err(Failure::new("cell-differs-from-the-committed-one", format!("{} vs block {} tx {}", c, ci.block, ci.tx_index)));
                    }
                }
            }
        }
        for t in all_txs(w, reg, 100).map_err(|e| Failure::new("rpc-error", e))? {
            let bn = hexu(&t["block_number"]) as usize;
            let ti = hexu(&t["tx_index"]) as usize;
            let ok = chain.blocks.get(bn).and_then(|b| b.transactions().get(ti).map(|x| format!("{:#x}", x.hash()) == t["transaction"]["hash"].as_str().unwrap_or(""))).unwrap_or(false);
            if !ok {
                return Err(Failure::new("history-entry-not-on-the-proven-chain", format!("block {} tx_index {} hash {}", bn, ti, t["transaction"]["hash"])));
            }
        }
    }
    for h in probe_headers {
        if let Ok(Some(hv)) = w.chain_rpc().get_header(h.unpack()) {
            let genuine = chain.number_of(h).map(|n| {
                let real: ckb_jsonrpc_types::HeaderView = chain.blocks[n as usize].header().into();
                serde_json::to_value(&real).unwrap() == serde_json::to_value(&hv).unwrap()
            });
            if genuine != Some(true) {
                return Err(Failure::new("header-served-is-not-a-header-of-the-proven-chain", format!("{:#x}", h)));
            }
        }
    }
    for th in probe_txs {
        if let Ok(tws) = w.tx_rpc().get_transaction(th.unpack()) {
            if let Some(tv) = &tws.transaction {
                let v = serde_json::to_value(&tws).unwrap();
                if v["tx_status"]["status"] == "committed" {
                    let bh = v["tx_status"]["block_hash"].as_str().unwrap_or("").to_string();
                    let blk = chain.blocks.iter().find(|b| format!("{:#x}", b.hash()) == bh);
                    let genuine = blk
                        .map(|b| {
                            b.transactions().iter().any(|t| {
                                // S5: the filtered-block proof of RFC 44 authenticates the raw transaction (its hash), not the
                                // witnesses; they are compared only for whole blocks (see the index oracle)
                                let js: ckb_jsonrpc_types::TransactionView = t.clone().into();
                                let mut a = serde_json::to_value(&js).unwrap();
                                let mut b2 = serde_json::to_value(tv).unwrap();
                                a["witnesses"] = serde_json::Value::Null;
                                b2["witnesses"] = serde_json::Value::Null;
                                a == b2
                            })
                        })
                        .unwrap_or(false);
                    if !genuine {
                        return Err(Failure::new("transaction-served-as-committed-is-not-committed-by-that-block", format!("tx {:#x} block {}", th, bh)));
                    }
                    // its header must be served as well
                    if let Some(b) = blk {
                        if w.chain_rpc().get_header(b.hash().unpack()).ok().flatten().is_none() {
                            return Err(Failure::new("committed-transaction-without-stored-header", format!("{:#x}", th)));
                        }
                    }
                }
            }
        }
    }
    Ok(())
}

impl Property for C02 {
    type Case = Case;
    const ID: &'static str = "C02";

    fn cases(tier: Tier) -> u32 {
        match tier {
            Tier::Quick => 4000,
            Tier::Thorough => 40_000,
        }
    }

    fn rule() -> &'static str {
        "cases: generated chain + registered scripts, synced mid-way by a generated schedule with fetch_header / fetch_transaction calls so that GetBlocks / GetBlocksProof / GetTransactionsProof are in flight; then 1..4 attacks: one in-flight request (or none) is answered honestly, or with one of 7 SendBlock, 9 SendBlocksProof (v0/v1) or 8 SendTransactionsProof (v0/v1) mutations, \
         by the asked peer, another peer or an unproven peer. After every attack everything served (cells, history, get_header, get_transaction incl. witnesses and block hash) must be a genuine fact of the proven chain; afterwards the sync is finished honestly and the reference index must hold. \
         non-trivial: a mutated (non-honest) message delivered while a request of the matching kind was outstanding; distinct by (message kind, v0/v1, mutation kind, sender role)"
    }

    fn strategy(tier: Tier) -> BoxedStrategy<Case> {
        let maxlen = match tier {
            Tier::Quick => 90u16,
            Tier::Thorough => 400u16,
        };
        let attack = (prop_oneof![3 => Just(0u8), 5 => Just(1u8), 2 => Just(2u8), 1 => Just(3u8)], any::<u16>(), 0u8..12, any::<u8>(), any::<u64>(), prop_oneof![6 => Just(0u8), 2 => Just(1u8), 1 => Just(2u8)]).prop_map(|(target, pick, kind, sub, val, from)| Attack { target, pick, kind, sub, val, from });
        (chain_params(maxlen), net_params(), prop::collection::vec(reg_spec(), 1..3), prop::collection::vec(step_strategy(true), 0..25), prop::collection::vec(attack, 2..9))
            .prop_map(|(mut chain, mut net, mut initial, before, attacks)| {
                chain.density = chain.density.max(60);
                net.max_outbound = net.max_outbound.max(2);
                net.filter_batch = net.filter_batch.max(6);
                chain.density = chain.density.max(80);
                for r in initial.iter_mut() {
                    r.start_kind = 0;
                }
                // no set_scripts / restarts in the lead-in (keeps requests in flight)
                let before = before.into_iter().filter(|s| !matches!(s, Step::SetScripts(..) | Step::Restart | Step::Grow(_))).collect();
                Case { chain, net, initial, before, attacks }
            })
            .boxed()
    }

    fn run(case: &Case, obs: &mut Obs) -> Result<(), Failure> {
        let chain = build_chain(&case.chain);
        let mut sim = Sim::new(chain, build_cfg(&case.net));
        crate::verif_hooks::set_rng_seed(Some(case.chain.seed ^ 0xc02));
        let finish = |r: Result<(), Failure>| {
            crate::verif_hooks::set_rng_seed(None);
            r
        };
        sim.w.record_deliveries = true;
        sim.set_scripts(0, &case.initial);
        sim.connect_quorum();
        // a second honest proven peer so that "another peer" exists
        let tip = sim.w.chains[0].tip();
        if sim.w.connected_peers().len() < 2 {
            sim.w.connect(0, tip, true);
        }
        for st in &case.before {
            sim.step(st);
            if let Some(l) = ended_by_ban(&sim.w) {
                obs.label(l);
                return finish(Ok(()));
            }
        }
        let regs: Vec<Reg> = sim.regs.values().cloned().collect();
        let initial_tip = tip;
        let mut nt: Vec<(String, bool, String, u8)> = vec![];
        for a in &case.attacks {
            // make sure something is in flight: a few ticks
            sim.w.tick(SupportProtocols::LightClient, 1);
            sim.w.tick(SupportProtocols::LightClient, 2);
            let want_proto_msg = |m: &(ckb_network::ProtocolId, PeerIndex, P2pBytes)| -> Option<u8> {
                if m.0 == SupportProtocols::Sync.protocol_id() {
                    if let Ok(packed::SyncMessageUnion::GetBlocks(_)) = packed::SyncMessage::from_slice(&m.2).map(|x| x.to_enum()) {
                        return Some(0);
                    }
                } else if m.0 == SupportProtocols::LightClient.protocol_id() {
                    match packed::LightClientMessage::from_slice(&m.2).map(|x| x.to_enum()) {
                        Ok(packed::LightClientMessageUnion::GetBlocksProof(_)) => return Some(1),
                        Ok(packed::LightClientMessageUnion::GetTransactionsProof(_)) => return Some(2),
                        _ => {}
                    }
                }
                None
            };
            // honest progress until a request of the targeted kind is in flight
            if a.target % 4 == 2 {
                if TP_KINDS[a.kind as usize % TP_KINDS.len()] == "smuggle-requested-tx-into-another-block" {
                    // scripted set-up: the user asks for two transactions of different blocks, one of them in a block with at
                    // most two transactions (a shallow Merkle tree), below the proven tip
                    let proven_tip: u64 = sim.w.storage().get_tip_header().raw().number().unpack();
                    let c = &sim.w.chains[0];
                    let upto = (proven_tip as usize).min(c.blocks.len());
                    let shallow: Vec<usize> = (1..upto).filter(|n| c.blocks[*n].transactions().len() <= 2).collect();
                    if !shallow.is_empty() && upto > 2 {
                        let nr = shallow[idx(a.pick, shallow.len())];
                        let nf = 1 + (nr + (a.val as usize % (upto - 2))) % (upto - 1);
                        if nf != nr {
                            let r = c.blocks[nr].transactions().last().unwrap().hash();
                            let f = c.blocks[nf].transactions()[a.val as usize % c.blocks[nf].transactions().len()].hash();
                            let _ = sim.w.tx_rpc().fetch_transaction(r.unpack());
                            let _ = sim.w.tx_rpc().fetch_transaction(f.unpack());
                        }
                    }
                } else {
                    sim.step(&Step::FetchTx(a.pick));
                }
                sim.w.tick(SupportProtocols::LightClient, 1);
            }
            if a.target % 4 != 3 {
                for _ in 0..60 {
                    let has = sim.w.shared.sent.lock().unwrap().iter().any(|m| want_proto_msg(m) == Some(a.target % 4));
                    if has {
                        break;
                    }
                    if sim.w.outbox_len() == 0 {
                        sim.w.tick_all();
                        sim.w.advance(50);
                    } else {
                        // answer the oldest request that is not of the targeted kind
                        let pos = sim.w.shared.sent.lock().unwrap().iter().position(|m| want_proto_msg(m) != Some(a.target % 4)).unwrap_or(0);
                        sim.step(&Step::Deliver(((pos as u64 * 65536) / (sim.w.outbox_len().max(1) as u64)).min(65535) as u16));
                    }
                    if ended_by_ban(&sim.w).is_some() {
                        break;
                    }
                }
            }
            let candidates: Vec<usize> = {
                let q = sim.w.shared.sent.lock().unwrap();
                q.iter().enumerate().filter(|(_, m)| want_proto_msg(m) == Some(a.target % 4)).map(|(i, _)| i).collect()
            };
            let chain_ref_tip = sim.w.chains[0].tip();
            let mut probe_headers: BTreeSet<Byte32> = BTreeSet::new();
            let mut probe_txs: BTreeSet<Byte32> = BTreeSet::new();
            let (msgs, asked_peer, kind_name, v0, solicited): (Vec<(SupportProtocols, P2pBytes)>, Option<PeerIndex>, String, bool, bool) = if a.target % 4 == 3 || candidates.is_empty() {
                // unsolicited: a block / proof nobody asked for
                let n = 1 + (a.val as usize % chain_ref_tip.max(1) as usize);
                let blk = sim.w.chains[0].blocks[n].clone();
                probe_headers.insert(blk.hash());
                for t in blk.transactions() {
                    probe_txs.insert(t.hash());
                }
                let c = &sim.w.chains[0];
                let m = match a.sub % 3 {
                    0 => (SupportProtocols::Sync, send_block_msg(&mutate_block(&sim, c, &blk, a)).as_bytes()),
                    1 => {
                        let req = packed::GetBlocksProof::new_builder().last_hash(c.blocks[chain_ref_tip as usize].hash()).block_hashes(vec![blk.hash()].pack()).build();
                        (SupportProtocols::LightClient, blocks_proof_v1_msg(&View { chain: c, tip: chain_ref_tip }.send_blocks_proof(&req)).as_bytes())
                    }
                    _ => {
                        let req = packed::GetTransactionsProof::new_builder().last_hash(c.blocks[chain_ref_tip as usize].hash()).tx_hashes(vec![blk.transactions()[0].hash()].pack()).build();
                        (SupportProtocols::LightClient, txs_proof_v1_msg(&View { chain: c, tip: chain_ref_tip }.send_transactions_proof(&req)).as_bytes())
                    }
                };
                (vec![m], None, format!("unsolicited-{}", a.sub % 3), false, false)
            } else {
                let i = candidates[idx(a.pick, candidates.len())];
                let req = sim.w.take_request(i).unwrap();
                let peer = req.1;
                let sp = sim.w.peer(peer).cloned();
                let tipv = sp.map(|p| p.tip).unwrap_or(chain_ref_tip);
                let c = &sim.w.chains[0];
                let view = View { chain: c, tip: tipv };
                match a.target % 4 {
                    0 => {
                        let mut out = vec![];
                        if let Ok(packed::SyncMessageUnion::GetBlocks(g)) = packed::SyncMessage::from_slice(&req.2).map(|x| x.to_enum()) {
                            let hashes: Vec<Byte32> = g.block_hashes().into_iter().collect();
                            let victim = a.val as usize % hashes.len().max(1);
                            for (j, h) in hashes.iter().enumerate() {
                                probe_headers.insert(h.clone());
                                if let Some(n) = view.number_of(h) {
                                    let blk = c.blocks[n as usize].clone();
                                    for t in blk.transactions() {
                                        probe_txs.insert(t.hash());
                                    }
                                    let data = if j == victim { mutate_block(&sim, c, &blk, a) } else { blk.data() };
                                    for t in data.transactions().into_iter() {
                                        probe_txs.insert(t.calc_tx_hash());
                                    }
                                    out.push((SupportProtocols::Sync, send_block_msg(&data).as_bytes()));
                                }
                            }
                        }
                        (out, Some(peer), format!("SendBlock/{}", BLOCK_KINDS[a.kind as usize % BLOCK_KINDS.len()]), false, true)
                    }
                    1 => {
                        let mut out = vec![];
                        if let Ok(packed::LightClientMessageUnion::GetBlocksProof(g)) = packed::LightClientMessage::from_slice(&req.2).map(|x| x.to_enum()) {
                            for h in g.block_hashes().into_iter() {
                                probe_headers.insert(h);
                            }
                            let honest = view.send_blocks_proof(&g);
                            for h in honest.headers().into_iter() {
                                probe_headers.insert(h.calc_header_hash());
                            }
                            let m = mutate_blocks_proof(c, &honest, a);
                            out.push((SupportProtocols::LightClient, m.as_bytes()));
                        }
                        (out, Some(peer), format!("SendBlocksProof/{}", BP_KINDS[a.kind as usize % BP_KINDS.len()]), a.sub % 2 == 1, true)
                    }
                    _ => {
                        let mut out = vec![];
                        if let Ok(packed::LightClientMessageUnion::GetTransactionsProof(g)) = packed::LightClientMessage::from_slice(&req.2).map(|x| x.to_enum()) {
                            for h in g.tx_hashes().into_iter() {
                                probe_txs.insert(h);
                            }
                            let honest = view.send_transactions_proof(&g);
                            let m = mutate_txs_proof(c, &honest, a, &view, &g);
                            if TP_KINDS[a.kind as usize % TP_KINDS.len()] == "smuggle-requested-tx-into-another-block" {
                                obs.label(if honest.filtered_blocks().len() >= 2 { "smuggle:built(two requested transactions in different blocks)" } else { "smuggle:not-applicable(fewer than two filtered blocks)" });
                            }
                            if let Ok(packed::LightClientMessageUnion::SendTransactionsProof(p)) = packed::LightClientMessage::from_slice(&m.as_bytes()).map(|x| x.to_enum()) {
                                for fb in p.filtered_blocks().into_iter() {
                                    probe_headers.insert(fb.header().calc_header_hash());
                                    for t in fb.transactions().into_iter() {
                                        probe_txs.insert(t.calc_tx_hash());
                                    }
                                }
                            }
                            out.push((SupportProtocols::LightClient, m.as_bytes()));
                        }
                        (out, Some(peer), format!("SendTransactionsProof/{}", TP_KINDS[a.kind as usize % TP_KINDS.len()]), a.sub % 2 == 1, true)
                    }
                }
            };
            // who delivers it
            let sender = match (a.from % 3, asked_peer) {
                (0, Some(p)) => p,
                (2, _) => {
                    // a brand-new, unproven connection
                    let idx = PeerIndex::new(sim.w.next_index);
                    sim.w.next_index += 1;
                    sim.w.c().peers.add_peer(idx);
                    idx
                }
                (_, asked) => sim.w.connected_peers().iter().map(|p| p.index).find(|p| Some(*p) != asked).or(asked).unwrap_or(PeerIndex::new(1)),
            };
            let digest_before = sim.w.store_digest();
            for (proto, bytes) in msgs {
                sim.w.deliver(proto, sender, bytes);
            }
            let changed = sim.w.store_digest() != digest_before;
            let is_honest = kind_name.ends_with("/honest");
            obs.label(format!("attack:{}", kind_name));
            if solicited && !is_honest {
                nt.push((kind_name.clone(), v0, if Some(sender) == asked_peer { "asked".into() } else { "other".into() }, a.from % 3));
            }
            let _ = changed;
            // a matched block may be flagged as proved only if some delivered SendBlocksProof carried its header
            // (or it is the proven tip itself, which needs no further proof)
            {
                let mut carried: BTreeSet<Byte32> = BTreeSet::new();
                for (proto, _, d) in &sim.w.delivered {
                    if *proto == SupportProtocols::LightClient.protocol_id() {
                        // v1 answers carry extra fields: parse like the client does (compatible mode)
                        if let Ok(packed::LightClientMessageUnionReader::SendBlocksProof(p)) = packed::LightClientMessageReader::from_compatible_slice(d).map(|m| m.to_enum()) {
                            for h in p.headers().iter() {
                                carried.insert(h.to_entity().calc_header_hash());
                            }
                        }
                    }
                }
                for st in sim.w.c().peers.get_all_prove_states() {
                    carried.insert(st.1.get_last_header().header().hash());
                }
                carried.insert(sim.w.storage().get_tip_header().calc_header_hash());
                // a block that was the proven tip when its filter was processed is recorded as proved at once
                for b in sim.w.chains[0].blocks.iter().filter(|b| b.number() >= initial_tip) {
                    carried.insert(b.hash());
                }
                let mb = sim.w.c().peers.matched_blocks().read().unwrap();
                for (h, (proved, _)) in mb.iter() {
                    if *proved && !carried.contains(&h.pack()) {
                        return finish(Err(Failure::new(format!("matched-block-flagged-as-proved-without-a-proof/after-{}", kind_name), format!("{:#x}", h))));
                    }
                }
            }
            if let Err(f) = check_genuine(&sim.w, &sim.w.chains[0], &regs, &probe_headers, &probe_txs) {
                return finish(Err(Failure::new(format!("{}/after-{}", f.signature, kind_name), f.message)));
            }
            // peers banned for the bogus message are gone; the network re-dials honest ones
            let banned: Vec<PeerIndex> = sim.w.bans().iter().map(|(p, _)| *p).collect();
            for p in banned {
                if sim.w.peer(p).map(|x| x.connected).unwrap_or(false) {
                    sim.w.disconnect(p);
                }
            }
            sim.w.shared.banned.lock().unwrap().clear();
            sim.connect_quorum();
        }
        // finish the sync honestly: the index must be exactly the chain's
        sim.w.shared.banned.lock().unwrap().clear();
        let fin = sim.finish();
        if let Err(f) = fin {
            if f.signature.starts_with("honest-peer-") {
                obs.label(format!("ended-by-ban:{}", f.signature));
                return finish(Ok(()));
            }
            return finish(Err(Failure::new(format!("after-attacks/{}", f.signature), f.message)));
        }
        if let Err(f) = sim.compare_all() {
            return finish(Err(Failure::new(format!("after-attacks/{}", f.signature), format!("{} :: attacks {:?}", f.message, case.attacks.iter().map(|a| (a.target % 4, a.kind)).collect::<Vec<_>>()))));
        }
        obs.note("stats", json!(sim.w.stats));
        for k in nt {
            obs.nontrivial(k);
        }
        finish(Ok(()))
    }
}
