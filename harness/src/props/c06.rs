//! C06 — block filters are acted on only if authentic and attributed to the right block.

use std::collections::BTreeSet;

use ckb_network::{bytes::Bytes as P2pBytes, PeerIndex, SupportProtocols};
use ckb_types::{bytes::Bytes, packed::{self, Byte32}, prelude::*};
use proptest::prelude::*;
use serde::{Deserialize, Serialize};
use serde_json::json;

use crate::lcv::pbt::*;
use crate::lcv::props::common::*;
use crate::lcv::sim::server::{wrap_filter, View};

#[derive(Debug, Clone, Serialize, Deserialize)]
pub struct Attack {
    /// steps of honest progress before the attack
    pub lead: u8,
    pub kind: u8,
    pub pos: u16,
    pub val: u64,
    /// 0 asked peer, 1 another proven peer, 2 unproven peer
    pub from: u8,
    /// instead of answering a request: wait until a matched-blocks record is pending in the store, restart the client,
    /// let a peer become proven again (the filter timer does not fire yet, so the record is not recovered into memory),
    /// and deliver an UNSOLICITED batch of authentic filters whose start number is not the next height
    #[serde(default)]
    pub restart_unsolicited: bool,
}

#[derive(Debug, Clone, Serialize, Deserialize)]
pub struct Case {
    pub chain: ChainParams,
    pub net: NetParams,
    pub initial: Vec<RegSpec>,
    pub bad_hash_peer: bool,
    pub attacks: Vec<Attack>,
}

pub struct C06;

pub const KINDS: [&str; 15] = [
    "honest",
    "flip-filter-bit",
    "filter-of-another-block",
    "all-matching-filter",
    "never-matching-filter",
    "truncate-batch",
    "extend-batch",
    "shift-start-number",
    "unequal-counts",
    "hash-random",
    "hash-of-another-proven-block",
    "hash-of-fork-block",
    "hash-outside-batch",
    "swap-two-hashes",
    "hash-of-unproved-last-state",
];

impl Property for C06 {
    type Case = Case;
    const ID: &'static str = "C06";

    fn cases(tier: Tier) -> u32 {
        match tier {
            Tier::Quick => 1500,
            Tier::Thorough => 15_000,
        }
    }

    fn rule() -> &'static str {
        "cases: generated chain + scripts, quorum q = ceil(max_outbound/2) honest proven peers (optionally one more proven peer serving wrong filter hashes when q >= 2), a partial honest sync, then 1..4 attacks on an in-flight GetBlockFilters: \
         the answer is mutated (13 kinds: filter bytes, another block's filter, all / never matching filter, truncated / extended batch, shifted start, unequal counts, block hash random / of another proven block / of a fork block / outside the batch / swapped) and delivered by the asked, another or an unproven peer. \
         After each attack: the filtered height may only advance over filters identical to the chain's, and every recorded matched hash must be the chain's block at a height inside the accepted range; finally honest sync + reference index. \
         non-trivial: a deviating BlockFilters message whose batch covers a block with in-range activity of a registered script; distinct by (kind, sender role, batch position relative to the check point, quorum)"
    }

    fn strategy(tier: Tier) -> BoxedStrategy<Case> {
        let maxlen = match tier {
            Tier::Quick => 110u16,
            Tier::Thorough => 300u16,
        };
        let attack = (0u8..12, 0u8..15, any::<u16>(), any::<u64>(), prop_oneof![6 => Just(0u8), 2 => Just(1u8), 1 => Just(2u8)], prop::bool::weighted(0.12))
            .prop_map(|(lead, kind, pos, val, from, restart_unsolicited)| Attack { lead, kind, pos, val, from, restart_unsolicited });
        (chain_params(maxlen), net_params(), prop::collection::vec(reg_spec(), 1..3), any::<bool>(), prop::collection::vec(attack, 1..5))
            .prop_map(|(mut chain, mut net, mut initial, bad_hash_peer, attacks)| {
                chain.density = chain.density.max(50);
                chain.len = chain.len.max(20);
                net.filter_batch = net.filter_batch.max(3);
                for r in initial.iter_mut() {
                    if r.start_kind > 1 {
                        r.start_kind = 0;
                    }
                }
                Case { chain, net, initial, bad_hash_peer, attacks }
            })
            .boxed()
    }

    fn run(case: &Case, obs: &mut Obs) -> Result<(), Failure> {
        let chain = build_chain(&case.chain);
        let fork = {
            let mut f = chain.fork_at(chain.tip() / 2, case.chain.seed ^ 6);
            f.mine_n(chain.tip() - chain.tip() / 2 + 1);
            f
        };
        let mut sim = Sim::new(chain, build_cfg(&case.net));
        crate::verif_hooks::set_rng_seed(Some(case.chain.seed ^ 0xc06));
        let finish = |r: Result<(), Failure>| {
            crate::verif_hooks::set_rng_seed(None);
            r
        };
        sim.set_scripts(0, &case.initial);
        sim.connect_quorum();
        let q = sim.q;
        if case.bad_hash_peer && q >= 2 && (sim.w.connected_peers().len() as u32) < sim.w.cfg.max_outbound {
            let tip = sim.w.chains[0].tip();
            let p = sim.w.connect(0, tip, true);
            sim.w.peer_mut(p).unwrap().bad_filter_hashes = true;
            obs.label("one-peer-with-wrong-filter-hashes");
        }
        let regs: Vec<_> = sim.regs.values().cloned().collect();
        let mut nt = vec![];
        for a in &case.attacks {
            // honest progress until a GetBlockFilters is in flight
            for _ in 0..a.lead {
                sim.step(&Step::Deliver(0));
            }
            if a.restart_unsolicited {
                for _ in 0..60 {
                    if sim.w.storage().get_earliest_matched_blocks().is_some() {
                        break;
                    }
                    if sim.w.outbox_len() == 0 {
                        sim.w.tick_all();
                        sim.w.advance(50);
                    }
                    sim.step(&Step::Deliver(0));
                }
                if let Some(l) = ended_by_ban(&sim.w) {
                    obs.label(l);
                    return finish(Ok(()));
                }
                let pending = match sim.w.storage().get_earliest_matched_blocks() {
                    Some(r) => r,
                    None => {
                        obs.label("no-matched-blocks-record-pending");
                        continue;
                    }
                };
                sim.step(&Step::Restart);
                // the chain has to grow: a peer announcing exactly the stored tip is never asked for a proof
                let m = sim.main;
                sim.w.grow(m, 1);
                // light-client traffic only: peers get proven, the filter protocol's timers do not fire
                let mut proven: Option<PeerIndex> = None;
                for _ in 0..40 {
                    loop {
                        let pos = sim.w.shared.sent.lock().unwrap().iter().position(|(proto, _, _)| *proto == SupportProtocols::LightClient.protocol_id());
                        match pos {
                            Some(p) => {
                                let m = sim.w.take_request(p).unwrap();
                                let peer = m.1;
                                for (proto, bytes) in sim.w.honest_replies(&m) {
                                    sim.w.deliver(proto, peer, bytes);
                                }
                            }
                            None => break,
                        }
                    }
                    proven = sim.w.connected_peers().iter().map(|p| p.index).find(|p| sim.w.c().peers.get_state(p).map(|s| s.get_prove_state().is_some()).unwrap_or(false));
                    if proven.is_some() {
                        break;
                    }
                    sim.w.tick(SupportProtocols::LightClient, 0);
                    sim.w.advance(50);
                }
                let sender = match proven {
                    Some(p) => p,
                    None => {
                        obs.label("no-peer-proven-after-restart");
                        continue;
                    }
                };
                let mf = sim.w.storage().get_min_filtered_block_number();
                let start_n = if a.val % 4 == 0 { mf.saturating_sub(a.val % 3) } else { mf + 2 + a.val % 3 };
                let (batch, covers) = {
                    let c = &sim.w.chains[0];
                    let tipv = sim.w.peer(sender).map(|p| p.tip).unwrap_or(c.tip());
                    let (ps, pc, _) = &pending;
                    let covers = (*ps..*ps + *pc).any(|h| regs.iter().any(|r| r.in_range(h) && c.cells.values().any(|ci| (ci.block == h || ci.spent_at.map(|s| s.0 == h).unwrap_or(false)) && r.matches(&ci.output))));
                    ((View { chain: c, tip: tipv }).block_filters(start_n.max(1), sim.w.cfg.filter_batch), covers)
                };
                if let Some(h) = batch {
                    let before = sim.w.storage().get_min_filtered_block_number();
                    sim.w.deliver(SupportProtocols::Filter, sender, wrap_filter(h).as_bytes());
                    let after = sim.w.storage().get_min_filtered_block_number();
                    obs.label("attack:unsolicited-shifted-batch-after-restart");
                    if after != before {
                        return finish(Err(Failure::new("filtered-height-advanced-by-a-batch-not-starting-at-the-next-height", format!("unsolicited authentic batch starting at {} after a restart with the record {:?} pending; min_filtered {} -> {}", start_n, (pending.0, pending.1), before, after))));
                    }
                    if covers {
                        nt.push(("unsolicited-shifted-batch-after-restart", a.from % 3, if start_n <= mf { "below" } else { "above" }, q));
                    }
                }
                continue;
            }
            let mut found = None;
            for _ in 0..12 {
                let pos = sim.w.shared.sent.lock().unwrap().iter().position(|(proto, _, d)| {
                    *proto == SupportProtocols::Filter.protocol_id() && matches!(packed::BlockFilterMessage::from_slice(d).map(|m| m.to_enum()), Ok(packed::BlockFilterMessageUnion::GetBlockFilters(_)))
                });
                if let Some(p) = pos {
                    found = Some(p);
                    break;
                }
                // answer everything else, fire timers
                let n = sim.w.outbox_len();
                for _ in 0..n {
                    sim.step(&Step::Deliver(0));
                }
                sim.w.tick_all();
                sim.w.advance(50);
            }
            if let Some(l) = ended_by_ban(&sim.w) {
                obs.label(l);
                return finish(Ok(()));
            }
            let pos = match found {
                Some(p) => p,
                None => {
                    obs.label("no-GetBlockFilters-in-flight");
                    continue;
                }
            };
            let req = sim.w.take_request(pos).unwrap();
            let asked = req.1;
            let start: u64 = match packed::BlockFilterMessage::from_slice(&req.2).map(|m| m.to_enum()) {
                Ok(packed::BlockFilterMessageUnion::GetBlockFilters(g)) => g.start_number().unpack(),
                _ => continue,
            };
            let c = &sim.w.chains[0];
            let tipv = sim.w.peer(asked).map(|p| p.tip).unwrap_or(c.tip());
            let honest = match (View { chain: c, tip: tipv }).block_filters(start, sim.w.cfg.filter_batch) {
                Some(h) => h,
                None => continue,
            };
            let mut filters: Vec<packed::Bytes> = honest.filters().into_iter().collect();
            let mut hashes: Vec<Byte32> = honest.block_hashes().into_iter().collect();
            let mut start_n = start;
            let mut announce_fork_tip = false;
            let n = filters.len();
            let i = idx(a.pos, n.max(1));
            let kind = KINDS[a.kind as usize % KINDS.len()];
            let other = (a.val % (c.tip() + 1)).max(1);
            match kind {
                "flip-filter-bit" => {
                    let mut b = filters[i].raw_data().to_vec();
                    if b.is_empty() {
                        b.push(1);
                    } else {
                        let k = (a.val as usize / 8) % b.len();
                        b[k] ^= 1 << (a.val % 8);
                    }
                    filters[i] = Bytes::from(b).pack();
                }
                "filter-of-another-block" => filters[i] = c.filters[other as usize].clone(),
                "all-matching-filter" => filters[i] = Bytes::from(vec![0xffu8; 40]).pack(),
                "never-matching-filter" => filters[i] = Bytes::new().pack(),
                "truncate-batch" => {
                    filters.truncate(i.max(1));
                    hashes.truncate(i.max(1));
                }
                "extend-batch" => {
                    let next = start + n as u64;
                    if next <= c.tip() {
                        filters.push(c.filters[next as usize].clone());
                        hashes.push(c.blocks[next as usize].hash());
                    }
                }
                "shift-start-number" => start_n = if a.val % 2 == 0 { start + 1 } else { start.saturating_sub(1) },
                "unequal-counts" => {
                    hashes.pop();
                }
                "hash-random" => hashes[i] = [0x31u8; 32].pack(),
                "hash-of-another-proven-block" => hashes[i] = c.blocks[other as usize].hash(),
                "hash-of-fork-block" => hashes[i] = fork.blocks[(start + i as u64).min(fork.tip()) as usize].hash(),
                "hash-outside-batch" => hashes[i] = c.blocks[((start + n as u64 + 1).min(c.tip())) as usize].hash(),
                "swap-two-hashes" => {
                    if n > 1 {
                        hashes.swap(i, (i + 1) % n);
                    }
                }
                "hash-of-unproved-last-state" => {
                    // the substituted hash is a header the asked peer has ANNOUNCED (its last state) but not proven
                    announce_fork_tip = true;
                    hashes[i] = fork.blocks[fork.tip() as usize].hash();
                }
                _ => {}
            }

            // does the batch cover in-range activity of a registered script?
            let covers_activity = (start..start + n as u64).any(|h| {
                regs.iter().any(|r| r.in_range(h) && c.cells.values().any(|ci| (ci.block == h || ci.spent_at.map(|s| s.0 == h).unwrap_or(false)) && r.matches(&ci.output)))
            });
            let msg = wrap_filter(packed::BlockFilters::new_builder().start_number(start_n.pack()).block_hashes(hashes.clone().pack()).filters(filters.clone().pack()).build());
            let sender = match a.from % 3 {
                0 => asked,
                2 => {
                    let idxp = PeerIndex::new(sim.w.next_index);
                    sim.w.next_index += 1;
                    sim.w.c().peers.add_peer(idxp);
                    idxp
                }
                _ => sim.w.connected_peers().iter().map(|p| p.index).find(|p| *p != asked).unwrap_or(asked),
            };
            if announce_fork_tip {
                let t = fork.tip();
                let bytes = crate::lcv::sim::server::wrap_lc(packed::SendLastState::new_builder().last_header(fork.verifiable_header(t)).build()).as_bytes();
                sim.w.deliver(SupportProtocols::LightClient, asked, bytes);
                if let Some(l) = ended_by_ban(&sim.w) {
                    obs.label(l);
                    return finish(Ok(()));
                }
            }
            let before = sim.w.storage().get_min_filtered_block_number();
            let proved_before: BTreeSet<Byte32> = crate::lcv::sim::world::matched_blocks_keys(&sim.w).into_iter().filter(|(_, v)| v.0).map(|(h, _)| h.pack()).collect();
            let interval = sim.w.cfg.interval;
            sim.w.deliver(SupportProtocols::Filter, sender, msg.as_bytes());
            let after = sim.w.storage().get_min_filtered_block_number();
            obs.label(format!("attack:{}", kind));
            // a BlockFilters message carries no proof of any block: afterwards a matched block may be flagged as proved only
            // if it is the proven last header of some peer
            {
                let proven: BTreeSet<Byte32> = sim.w.connected_peers().iter().filter_map(|p| sim.w.c().peers.get_state(&p.index).and_then(|s| s.get_prove_state().map(|ps| ps.get_last_header().header().hash()))).collect();
                for (h, (proved, _)) in crate::lcv::sim::world::matched_blocks_keys(&sim.w) {
                    let hb: Byte32 = h.pack();
                    if proved && !proven.contains(&hb) && !proved_before.contains(&hb) {
                        return finish(Err(Failure::new(
                            format!("matched-block-flagged-as-proved-by-a-BlockFilters-message/{}", kind),
                            format!("{} at position {} of batch starting {}: block {:#x} is marked proved although no peer has proven it", kind, i, start, hb),
                        )));
                    }
                }
            }
            let desc = format!("{} at position {} of batch [{}, {}) delivered as start {} by {:?} (asked {:?}); min_filtered {} -> {}", kind, i, start, start + n as u64, start_n, sender, asked, before, after);
            if after > before {
                // accepted prefix: heights before+1 ..= after
                if start_n != before + 1 {
                    return finish(Err(Failure::new("filtered-height-advanced-by-a-batch-not-starting-at-the-next-height", desc)));
                }
                let c = &sim.w.chains[0];
                for h in (before + 1)..=after {
                    let k = (h - start_n) as usize;
                    if filters.get(k).map(|f| f.as_slice()) != Some(c.filters[h as usize].as_slice()) {
                        return finish(Err(Failure::new(format!("tampered-filter-accepted/{}", kind), format!("{} :: height {}", desc, h))));
                    }
                }
                // a block whose (authentic) filter matches a registered script is downloaded by the hash listed at its
                // position: that hash must be the chain's block at that height
                for h in (before + 1)..=after {
                    let k = (h - start_n) as usize;
                    let listed = hashes.get(k);
                    let real = c.blocks[h as usize].hash();
                    let has_activity = regs.iter().any(|r| r.in_range(h) && c.cells.values().any(|ci| (ci.block == h || ci.spent_at.map(|s| s.0 == h).unwrap_or(false)) && r.matches(&ci.output)));
                    if has_activity && listed != Some(&real) {
                        // the announced-but-unproven header is a block of the competing fork: same defect, same signature as "hash-of-fork-block"
                        let sig_kind = if kind == "hash-of-unproved-last-state" { "hash-of-fork-block" } else { kind };
                        return finish(tolerate(obs, Failure::new(format!("substituted-block-hash-accepted/{}", sig_kind), format!("{} :: height {} listed {:?}", desc, h, listed.map(|x| format!("{:#x}", x))))));
                    }
                }
            }
            if kind != "honest" && covers_activity {
                let rel = if start <= interval { "first-interval" } else { "later" };
                nt.push((kind, a.from % 3, rel, q));
            }
            // banned peers leave, the network re-dials
            let banned: Vec<PeerIndex> = sim.w.bans().iter().map(|(p, _)| *p).collect();
            for p in banned {
                if sim.w.peer(p).map(|x| x.connected).unwrap_or(false) {
                    sim.w.disconnect(p);
                }
            }
            sim.w.shared.banned.lock().unwrap().clear();
            sim.connect_quorum();
        }
        sim.w.shared.banned.lock().unwrap().clear();
        if let Err(f) = sim.finish() {
            if f.signature.starts_with("honest-peer-") {
                obs.label(format!("ended-by-ban:{}", f.signature));
                return finish(Ok(()));
            }
            let mut sig = format!("after-attacks/{}", f.signature);
            if f.signature.starts_with("stuck/") {
                // waiting forever for a "matched block" that is not the chain's block at a height of its batch?
                let c = &sim.w.chains[0];
                if let Some((s, cnt, recs)) = sim.w.storage().get_earliest_matched_blocks() {
                    let real: BTreeSet<Byte32> = (s..s + cnt).filter(|h| *h <= c.tip()).map(|h| c.blocks[h as usize].hash()).collect();
                    if recs.iter().any(|(h, _)| !real.contains(h)) {
                        sig = "substituted-block-hash-accepted/stuck-waiting-for-a-block-that-cannot-be-proved".to_string();
                    }
                }
            }
            return finish(tolerate(obs, Failure::new(sig, format!("{} :: attacks {:?}", f.message, case.attacks.iter().map(|a| KINDS[a.kind as usize % KINDS.len()]).collect::<Vec<_>>()))));
        }
        if let Err(f) = sim.compare_all() {
            return finish(tolerate(obs, Failure::new(format!("after-attacks/{}", f.signature), format!("{} :: attacks {:?}", f.message, case.attacks.iter().map(|a| KINDS[a.kind as usize % KINDS.len()]).collect::<Vec<_>>()))));
        }
        obs.note("stats", json!(sim.w.stats));
        for k in nt {
            obs.nontrivial(k);
        }
        finish(Ok(()))
    }
}
