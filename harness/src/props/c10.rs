//! C10 — no message from a peer can terminate the client.
//!
//! Generated worlds (Eaglesong or Dummy PoW, so that forged headers can pass the PoW check and reach the
//! arithmetic) are driven into a peer-state class (requests of a chosen kind in flight), then 1..4 hostile
//! messages are delivered, each followed by nothing / timers:
//!   * derived: the honest answer to an in-flight request (or an unsolicited honest-format message) with 1..3
//!     numeric / hash fields overwritten by boundary values; fields are located by walking the molecule
//!     readers (zero-copy, so a field's offset in the message is a pointer difference) and overwritten in place,
//!     which keeps the message well-formed; optionally the commitments of every verifiable header are
//!     recomputed (extension := MMR hash of the forged parent chain root, extra hash) so that the chain-root check
//!     passes too;
//!   * structural: vectors emptied / truncated / duplicated / made inconsistent with their sibling vectors;
//!   * bytes: truncations, random bytes behind a valid union header, pure random, on all four protocols.
//! Oracle: catch_unwind around every handler call (received / notify / connected / disconnected); any panic
//! other than the documented "long fork detected" abort is a violation (the harness is built with
//! overflow-checks like the release profile); afterwards the store must reopen.

use std::panic::{catch_unwind, AssertUnwindSafe};

use ckb_network::{bytes::Bytes as P2pBytes, PeerIndex, SupportProtocols};
use ckb_pow::Pow;
use ckb_types::{bytes::Bytes, packed, prelude::*, U256};
use proptest::prelude::*;
use serde::{Deserialize, Serialize};

use crate::lcv::pbt::*;
use crate::lcv::props::c08::Op;
use crate::lcv::props::common::*;
use crate::lcv::sim::chain::{gen_epochs, Chain, TxGen};
use crate::lcv::sim::server::View;
use crate::lcv::sim::world::{Msg, World, START_TIME};

#[derive(Debug, Clone, Serialize, Deserialize)]
pub struct FieldMut {
    pub slot: u16,
    pub val: u8,
}

#[derive(Debug, Clone, Serialize, Deserialize)]
pub enum Attack {
    /// the honest answer to an in-flight request of kind `kind` (or any), mutated
    Derived { kind: u8, req: u16, muts: Vec<FieldMut>, structural: Option<(u8, u16)>, fix: bool },
    /// an unsolicited message in honest format built from the peer's chain, mutated
    Fresh { kind: u8, a: u8, b: u8, muts: Vec<FieldMut>, structural: Option<(u8, u16)>, fix: bool },
    /// raw bytes: mode 0 truncation of an honest answer, 1 random bytes behind a valid union id, 2 pure random, 3 bit flips of an honest answer
    Bytes { proto: u8, mode: u8, seed: u64, len: u16 },
    Tick(u8),
    Advance(u16),
    /// a new connection, or a disconnect of the peer
    Connect,
    Disconnect,
}

#[derive(Debug, Clone, Serialize, Deserialize)]
pub struct Case {
    pub chain: ChainParams,
    pub dummy_pow: bool,
    pub net: NetParams,
    pub initial: Vec<RegSpec>,
    pub prefix: Vec<Op>,
    /// drive the sync on until a request of this kind is in flight (6 = do not drive)
    pub drive: u8,
    pub attacks: Vec<Attack>,
    /// 0: nothing. Otherwise, before the attacks, the peers' chain grows by more than last_n blocks and its NEW TIP claims a
    /// malformed epoch (same epoch number as the header the client has proven, other length / index; zero length; index
    /// beyond the length): a PoW-valid block with consistent commitments which every peer serves and proves honestly
    #[serde(default)]
    pub hostile_tip: u8,
}

pub struct C10;

const KINDS: [&str; 7] = ["GetLastStateProof", "GetBlocksProof", "GetTransactionsProof", "GetBlockFilters", "GetBlockFilterHashes", "GetBlockFilterCheckPoints", "GetBlocks"];

fn build_chain_pow(p: &ChainParams, dummy: bool) -> Chain {
    let epochs = gen_epochs(p.seed, p.n_epochs.max(1) as usize, p.maxlen.max(1) as u64, 20);
    let txgen = TxGen { density: p.density as u64, max_txs: 3, typed: p.typed as u64, same_block: p.same_block as u64, cellbase_universe: p.cellbase_universe, gate: false };
    let mut chain = Chain::new(epochs, START_TIME, p.seed, if dummy { Pow::Dummy } else { Pow::Eaglesong }, txgen);
    chain.mine_n(p.len as u64);
    chain
}

// ---- slots: fixed-size fields located inside a well-formed message ----

#[derive(Clone, Copy, Debug)]
enum SlotKind {
    U32,
    Compact,
    U64,
    Epoch,
    U128,
    U256,
    Hash,
}

#[derive(Clone, Copy, Debug)]
struct Slot {
    off: usize,
    kind: SlotKind,
    name: &'static str,
}

fn off(base: &[u8], sub: &[u8]) -> usize {
    sub.as_ptr() as usize - base.as_ptr() as usize
}

fn header_slots(base: &[u8], h: packed::HeaderReader, out: &mut Vec<Slot>) {
    let o = off(base, h.as_slice());
    for (d, kind, name) in [
        (0usize, SlotKind::U32, "header.version"),
        (4, SlotKind::Compact, "header.compact_target"),
        (8, SlotKind::U64, "header.timestamp"),
        (16, SlotKind::U64, "header.number"),
        (24, SlotKind::Epoch, "header.epoch"),
        (32, SlotKind::Hash, "header.parent_hash"),
        (64, SlotKind::Hash, "header.transactions_root"),
        (96, SlotKind::Hash, "header.proposals_hash"),
        (128, SlotKind::Hash, "header.extra_hash"),
        (160, SlotKind::Hash, "header.dao"),
        (192, SlotKind::U128, "header.nonce"),
    ] {
        out.push(Slot { off: o + d, kind, name });
    }
}

fn digest_slots(base: &[u8], d: packed::HeaderDigestReader, out: &mut Vec<Slot>) {
    let o = off(base, d.as_slice());
    for (x, kind, name) in [
        (0usize, SlotKind::Hash, "digest.children_hash"),
        (32, SlotKind::U256, "digest.total_difficulty"),
        (64, SlotKind::U64, "digest.start_number"),
        (72, SlotKind::U64, "digest.end_number"),
        (80, SlotKind::Epoch, "digest.start_epoch"),
        (88, SlotKind::Epoch, "digest.end_epoch"),
        (96, SlotKind::U64, "digest.start_timestamp"),
        (104, SlotKind::U64, "digest.end_timestamp"),
        (112, SlotKind::Compact, "digest.start_compact_target"),
        (116, SlotKind::Compact, "digest.end_compact_target"),
    ] {
        out.push(Slot { off: o + x, kind, name });
    }
}

fn vh_slots(base: &[u8], v: packed::VerifiableHeaderReader, out: &mut Vec<Slot>) {
    header_slots(base, v.header(), out);
    out.push(Slot { off: off(base, v.uncles_hash().as_slice()), kind: SlotKind::Hash, name: "uncles_hash" });
    digest_slots(base, v.parent_chain_root(), out);
}

fn hashes_slots(base: &[u8], v: packed::Byte32VecReader, name: &'static str, out: &mut Vec<Slot>) {
    for h in v.iter().take(6) {
        out.push(Slot { off: off(base, h.as_slice()), kind: SlotKind::Hash, name });
    }
}

/// Fixed-size fields of a message (None: the bytes are not a well-formed message of that protocol).
fn slots_of(proto: &SupportProtocols, data: &[u8]) -> Option<Vec<Slot>> {
    let mut out = vec![];
    match proto {
        SupportProtocols::LightClient => {
            let m = packed::LightClientMessageReader::from_compatible_slice(data).ok()?;
            use packed::LightClientMessageUnionReader as U;
            match m.to_enum() {
                U::SendLastState(r) => vh_slots(data, r.last_header(), &mut out),
                U::SendLastStateProof(r) => {
                    vh_slots(data, r.last_header(), &mut out);
                    for d in r.proof().iter().take(4) {
                        digest_slots(data, d, &mut out);
                    }
                    let n = r.headers().len();
                    // first, a middle one and the last ones (the interesting positions of a proof)
                    let mut picks = vec![0usize, n / 2, n.saturating_sub(2), n.saturating_sub(1)];
                    picks.dedup();
                    for i in picks {
                        if let Some(h) = r.headers().get(i) {
                            vh_slots(data, h, &mut out);
                        }
                    }
                }
                U::SendBlocksProof(r) => {
                    vh_slots(data, r.last_header(), &mut out);
                    for d in r.proof().iter().take(3) {
                        digest_slots(data, d, &mut out);
                    }
                    for h in r.headers().iter().take(3) {
                        header_slots(data, h, &mut out);
                    }
                    hashes_slots(data, r.missing_block_hashes(), "missing_block_hashes", &mut out);
                }
                U::SendTransactionsProof(r) => {
                    vh_slots(data, r.last_header(), &mut out);
                    for d in r.proof().iter().take(3) {
                        digest_slots(data, d, &mut out);
                    }
                    for fb in r.filtered_blocks().iter().take(3) {
                        header_slots(data, fb.header(), &mut out);
                        out.push(Slot { off: off(data, fb.witnesses_root().as_slice()), kind: SlotKind::Hash, name: "witnesses_root" });
                        for i in fb.proof().indices().iter().take(4) {
                            out.push(Slot { off: off(data, i.as_slice()), kind: SlotKind::U32, name: "merkle.index" });
                        }
                        hashes_slots(data, fb.proof().lemmas(), "merkle.lemma", &mut out);
                    }
                    hashes_slots(data, r.missing_tx_hashes(), "missing_tx_hashes", &mut out);
                }
                U::GetLastState(_) | U::GetLastStateProof(_) | U::GetBlocksProof(_) | U::GetTransactionsProof(_) => {}
            }
        }
        SupportProtocols::Filter => {
            let m = packed::BlockFilterMessageReader::from_compatible_slice(data).ok()?;
            use packed::BlockFilterMessageUnionReader as U;
            match m.to_enum() {
                U::BlockFilters(r) => {
                    out.push(Slot { off: off(data, r.start_number().as_slice()), kind: SlotKind::U64, name: "start_number" });
                    hashes_slots(data, r.block_hashes(), "block_hashes", &mut out);
                }
                U::BlockFilterHashes(r) => {
                    out.push(Slot { off: off(data, r.start_number().as_slice()), kind: SlotKind::U64, name: "start_number" });
                    out.push(Slot { off: off(data, r.parent_block_filter_hash().as_slice()), kind: SlotKind::Hash, name: "parent_block_filter_hash" });
                    hashes_slots(data, r.block_filter_hashes(), "block_filter_hashes", &mut out);
                }
                U::BlockFilterCheckPoints(r) => {
                    out.push(Slot { off: off(data, r.start_number().as_slice()), kind: SlotKind::U64, name: "start_number" });
                    hashes_slots(data, r.block_filter_hashes(), "check_points", &mut out);
                }
                U::GetBlockFilters(r) => out.push(Slot { off: off(data, r.start_number().as_slice()), kind: SlotKind::U64, name: "start_number" }),
                U::GetBlockFilterHashes(r) => out.push(Slot { off: off(data, r.start_number().as_slice()), kind: SlotKind::U64, name: "start_number" }),
                U::GetBlockFilterCheckPoints(r) => out.push(Slot { off: off(data, r.start_number().as_slice()), kind: SlotKind::U64, name: "start_number" }),
            }
        }
        SupportProtocols::Sync => {
            let m = packed::SyncMessageReader::from_compatible_slice(data).ok()?;
            if let packed::SyncMessageUnionReader::SendBlock(r) = m.to_enum() {
                header_slots(data, r.block().header(), &mut out);
            }
        }
        _ => {
            let m = packed::RelayMessageReader::from_compatible_slice(data).ok()?;
            use packed::RelayMessageUnionReader as U;
            match m.to_enum() {
                U::RelayTransactionHashes(r) => hashes_slots(data, r.tx_hashes(), "tx_hashes", &mut out),
                U::GetRelayTransactions(r) => hashes_slots(data, r.tx_hashes(), "tx_hashes", &mut out),
                U::RelayTransactions(r) => {
                    for t in r.transactions().iter().take(3) {
                        out.push(Slot { off: off(data, t.cycles().as_slice()), kind: SlotKind::U64, name: "cycles" });
                    }
                }
                _ => {}
            }
        }
    }
    Some(out)
}

struct Ctx {
    last_n: u64,
    interval: u64,
    tip: u64,
}

fn write_boundary(data: &mut [u8], s: &Slot, val: u8, c: &Ctx) -> String {
    let cur64 = |d: &[u8]| u64::from_le_bytes(d[s.off..s.off + 8].try_into().unwrap());
    match s.kind {
        SlotKind::U32 => {
            let v: u32 = [0, 1, 2, u32::MAX, u32::MAX - 1, 0x8000_0000][val as usize % 6];
            data[s.off..s.off + 4].copy_from_slice(&v.to_le_bytes());
            format!("{}={:#x}", s.name, v)
        }
        SlotKind::Compact => {
            // 0x01000001: difficulty 2^256-1 region; 0x2100ffff: overflowing target; 0: invalid
            let v: u32 = [0, 1, 0x0100_0001, 0x20ff_ffff, 0x2100_ffff, 0xff00_0001, 0x1d00_ffff, 0x0300_0001][val as usize % 8];
            data[s.off..s.off + 4].copy_from_slice(&v.to_le_bytes());
            format!("{}={:#x}", s.name, v)
        }
        SlotKind::U64 => {
            let cur = cur64(data);
            let table = [
                0,
                1,
                2,
                c.last_n,
                c.last_n + 1,
                c.interval - 1,
                c.interval,
                c.interval + 1,
                c.tip,
                c.tip + 1,
                cur.wrapping_add(1),
                cur.wrapping_sub(1),
                u32::MAX as u64,
                1 << 32,
                1 << 63,
                u64::MAX - 1,
                u64::MAX,
            ];
            let v = table[val as usize % table.len()];
            data[s.off..s.off + 8].copy_from_slice(&v.to_le_bytes());
            format!("{}={:#x}", s.name, v)
        }
        SlotKind::Epoch => {
            // full value = length << 40 | index << 24 | number
            let cur = cur64(data);
            let (num, idx, len) = (cur & 0xff_ffff, (cur >> 24) & 0xffff, (cur >> 40) & 0xffff);
            let mk = |n: u64, i: u64, l: u64| (l << 40) | (i << 24) | n;
            let table = [
                0,
                mk(num, 0, 0),
                mk(num, idx, 0),
                mk(num, len, len),
                mk(num, len + 1, len),
                mk(num + 1, 0, len),
                mk(num.wrapping_sub(1) & 0xff_ffff, idx, len),
                mk(0xff_ffff, 0xffff, 0xffff),
                mk(num, 0xffff, 1),
                mk(num + 2, idx, len),
                u64::MAX,
                mk(num, idx, 1),
            ];
            let v = table[val as usize % table.len()];
            data[s.off..s.off + 8].copy_from_slice(&v.to_le_bytes());
            format!("{}={:#x}", s.name, v)
        }
        SlotKind::U128 => {
            let v: u128 = [0, 1, u128::MAX, 1 << 127][val as usize % 4];
            data[s.off..s.off + 16].copy_from_slice(&v.to_le_bytes());
            format!("{}={:#x}", s.name, v)
        }
        SlotKind::U256 => {
            let cur = U256::from_le_bytes(&data[s.off..s.off + 32].try_into().unwrap());
            let one = U256::from(1u64);
            let v = match val % 9 {
                0 => U256::zero(),
                1 => one,
                2 => U256::from(u64::MAX),
                3 => U256::from(u64::MAX) + one,
                4 => U256::max_value(),
                5 => U256::max_value() - one,
                6 => cur.checked_add(&one).unwrap_or_else(U256::max_value),
                7 => cur.checked_sub(&one).unwrap_or_else(U256::zero),
                _ => {
                    let mut b = [0u8; 32];
                    b[31] = 0x80;
                    U256::from_le_bytes(&b)
                }
            };
            data[s.off..s.off + 32].copy_from_slice(&v.to_le_bytes());
            format!("{}={:#x}", s.name, v)
        }
        SlotKind::Hash => {
            match val % 3 {
                0 => data[s.off..s.off + 32].iter_mut().for_each(|b| *b = 0),
                1 => data[s.off..s.off + 32].iter_mut().for_each(|b| *b = 0xff),
                _ => data[s.off + (val as usize % 32)] ^= 1 << (val % 8),
            }
            format!("{}~{}", s.name, val % 3)
        }
    }
}

/// extension := MMR hash of the (forged) parent chain root, extra hash recomputed: the chain-root check passes.
fn fix_vh(v: &packed::VerifiableHeader) -> packed::VerifiableHeader {
    let ext: packed::Bytes = Bytes::from(v.parent_chain_root().calc_mmr_hash().as_slice().to_vec()).pack();
    let extra = ckb_types::core::ExtraHashView::new(v.uncles_hash(), Some(ext.calc_raw_data_hash())).extra_hash();
    let raw = v.header().raw().as_builder().extra_hash(extra).build();
    let header = v.header().as_builder().raw(raw).build();
    v.clone().as_builder().extension(Pack::<packed::BytesOpt>::pack(&Some(ext))).header(header).build()
}

fn fix_commitments(proto: &SupportProtocols, data: &[u8]) -> Option<Vec<u8>> {
    if proto.protocol_id() != SupportProtocols::LightClient.protocol_id() {
        return None;
    }
    let m = packed::LightClientMessage::from_compatible_slice(data).ok()?;
    use packed::LightClientMessageUnion as U;
    let u: U = match m.to_enum() {
        U::SendLastState(r) => r.clone().as_builder().last_header(fix_vh(&r.last_header())).build().into(),
        U::SendLastStateProof(r) => {
            let hs: Vec<packed::VerifiableHeader> = r.headers().into_iter().map(|h| fix_vh(&h)).collect();
            r.clone().as_builder().last_header(fix_vh(&r.last_header())).headers(packed::VerifiableHeaderVec::new_builder().set(hs).build()).build().into()
        }
        U::SendBlocksProof(r) => r.clone().as_builder().last_header(fix_vh(&r.last_header())).build().into(),
        U::SendTransactionsProof(r) => r.clone().as_builder().last_header(fix_vh(&r.last_header())).build().into(),
        _ => return None,
    };
    Some(packed::LightClientMessage::new_builder().set(u).build().as_slice().to_vec())
}

fn trunc_hashes(v: &packed::Byte32Vec, how: u16) -> packed::Byte32Vec {
    let mut items: Vec<packed::Byte32> = v.clone().into_iter().collect();
    match how % 5 {
        0 => items.clear(),
        1 => {
            items.pop();
        }
        2 => {
            if let Some(f) = items.first().cloned() {
                items.push(f);
            }
        }
        3 => items.truncate(1),
        _ => {
            let n = 1 + (how as usize / 5) % 40;
            let extra: Vec<packed::Byte32> = (0..n).map(|i| packed::Byte32::from_slice(&[i as u8; 32]).unwrap()).collect();
            items.extend(extra);
        }
    }
    packed::Byte32Vec::new_builder().set(items).build()
}

/// Vector-level mutations that keep the message well-formed.
fn structural(proto: &SupportProtocols, data: &[u8], which: u8, how: u16) -> Option<Vec<u8>> {
    match proto {
        SupportProtocols::LightClient => {
            let m = packed::LightClientMessage::from_compatible_slice(data).ok()?;
            use packed::LightClientMessageUnion as U;
            let u: U = match m.to_enum() {
                U::SendLastStateProof(r) => {
                    let mut hs: Vec<packed::VerifiableHeader> = r.headers().into_iter().collect();
                    let mut proof: Vec<packed::HeaderDigest> = r.proof().into_iter().collect();
                    match which % 8 {
                        0 => hs.clear(),
                        1 => {
                            hs.pop();
                        }
                        2 => {
                            if !hs.is_empty() {
                                hs.remove(how as usize % hs.len());
                            }
                        }
                        3 => {
                            if !hs.is_empty() {
                                let i = how as usize % hs.len();
                                let x = hs[i].clone();
                                hs.insert(i, x);
                            }
                        }
                        4 => hs.reverse(),
                        5 => proof.clear(),
                        6 => {
                            if let Some(p) = proof.first().cloned() {
                                proof.push(p);
                            }
                        }
                        _ => {
                            // only the last header, many times
                            let l = r.last_header();
                            hs = std::iter::repeat(l).take(1 + how as usize % 12).collect();
                        }
                    }
                    r.clone()
                        .as_builder()
                        .headers(packed::VerifiableHeaderVec::new_builder().set(hs).build())
                        .proof(packed::HeaderDigestVec::new_builder().set(proof).build())
                        .build()
                        .into()
                }
                U::SendBlocksProof(r) => {
                    let mut hs: Vec<packed::Header> = r.headers().into_iter().collect();
                    match which % 5 {
                        0 => hs.clear(),
                        1 => {
                            if let Some(x) = hs.first().cloned() {
                                hs.push(x);
                            }
                        }
                        2 => {
                            return Some(packed::LightClientMessage::new_builder().set(r.clone().as_builder().missing_block_hashes(trunc_hashes(&r.missing_block_hashes(), how)).build()).build().as_slice().to_vec());
                        }
                        3 => {
                            return Some(packed::LightClientMessage::new_builder().set(r.clone().as_builder().proof(Default::default()).build()).build().as_slice().to_vec());
                        }
                        _ => hs.reverse(),
                    }
                    r.clone().as_builder().headers(packed::HeaderVec::new_builder().set(hs).build()).build().into()
                }
                U::SendTransactionsProof(r) => {
                    let mut fbs: Vec<packed::FilteredBlock> = r.filtered_blocks().into_iter().collect();
                    match which % 6 {
                        0 => fbs.clear(),
                        1 => {
                            if let Some(x) = fbs.first().cloned() {
                                fbs.push(x);
                            }
                        }
                        2 => {
                            // a filtered block without transactions / with an empty merkle proof
                            if let Some(x) = fbs.first().cloned() {
                                fbs[0] = x.as_builder().transactions(Default::default()).build();
                            }
                        }
                        3 => {
                            if let Some(x) = fbs.first().cloned() {
                                fbs[0] = x.as_builder().proof(Default::default()).build();
                            }
                        }
                        4 => {
                            return Some(packed::LightClientMessage::new_builder().set(r.clone().as_builder().missing_tx_hashes(trunc_hashes(&r.missing_tx_hashes(), how)).build()).build().as_slice().to_vec());
                        }
                        _ => {
                            if let Some(x) = fbs.first().cloned() {
                                let idx: Vec<packed::Uint32> = (0..(1 + how % 6)).map(|i| Pack::pack(&(i as u32 * 7))).collect();
                                let p = x.proof().as_builder().indices(packed::Uint32Vec::new_builder().set(idx).build()).build();
                                fbs[0] = x.as_builder().proof(p).build();
                            }
                        }
                    }
                    r.clone().as_builder().filtered_blocks(packed::FilteredBlockVec::new_builder().set(fbs).build()).build().into()
                }
                _ => return None,
            };
            Some(packed::LightClientMessage::new_builder().set(u).build().as_slice().to_vec())
        }
        SupportProtocols::Filter => {
            let m = packed::BlockFilterMessage::from_compatible_slice(data).ok()?;
            use packed::BlockFilterMessageUnion as U;
            let u: U = match m.to_enum() {
                U::BlockFilters(r) => {
                    let mut filters: Vec<packed::Bytes> = r.filters().into_iter().collect();
                    match which % 5 {
                        0 => r.clone().as_builder().block_hashes(trunc_hashes(&r.block_hashes(), how)).build().into(),
                        1 => {
                            filters.pop();
                            r.clone().as_builder().filters(packed::BytesVec::new_builder().set(filters).build()).build().into()
                        }
                        2 => r.clone().as_builder().filters(Default::default()).block_hashes(Default::default()).build().into(),
                        3 => {
                            // garbage filter data of various lengths
                            let f: Vec<packed::Bytes> = filters.iter().enumerate().map(|(i, _)| Bytes::from(vec![0xa5u8; (how as usize + i) % 9]).pack()).collect();
                            r.clone().as_builder().filters(packed::BytesVec::new_builder().set(f).build()).build().into()
                        }
                        _ => {
                            if let Some(x) = filters.first().cloned() {
                                filters.push(x);
                            }
                            r.clone().as_builder().filters(packed::BytesVec::new_builder().set(filters).build()).build().into()
                        }
                    }
                }
                U::BlockFilterHashes(r) => r.clone().as_builder().block_filter_hashes(trunc_hashes(&r.block_filter_hashes(), how)).build().into(),
                U::BlockFilterCheckPoints(r) => r.clone().as_builder().block_filter_hashes(trunc_hashes(&r.block_filter_hashes(), how)).build().into(),
                _ => return None,
            };
            Some(packed::BlockFilterMessage::new_builder().set(u).build().as_slice().to_vec())
        }
        SupportProtocols::Sync => {
            let m = packed::SyncMessage::from_compatible_slice(data).ok()?;
            if let packed::SyncMessageUnion::SendBlock(r) = m.to_enum() {
                let b = r.block();
                let nb = match which % 4 {
                    0 => b.clone().as_builder().transactions(Default::default()).build(),
                    1 => {
                        let mut txs: Vec<packed::Transaction> = b.transactions().into_iter().collect();
                        if let Some(x) = txs.last().cloned() {
                            txs.push(x);
                        }
                        b.clone().as_builder().transactions(packed::TransactionVec::new_builder().set(txs).build()).build()
                    }
                    2 => b.clone().as_builder().uncles(packed::UncleBlockVec::new_builder().push(Default::default()).build()).build(),
                    _ => b.clone().as_builder().proposals(packed::ProposalShortIdVec::new_builder().push(Default::default()).build()).build(),
                };
                return Some(packed::SyncMessage::new_builder().set(packed::SendBlock::new_builder().block(nb).build()).build().as_slice().to_vec());
            }
            None
        }
        _ => None,
    }
}

fn mutate(proto: &SupportProtocols, honest: &[u8], muts: &[FieldMut], st: &Option<(u8, u16)>, fix: bool, c: &Ctx, desc: &mut Vec<String>) -> Vec<u8> {
    let mut data = honest.to_vec();
    if let Some((which, how)) = st {
        if let Some(d) = structural(proto, &data, *which, *how) {
            desc.push(format!("structural({},{})", which, how));
            data = d;
        }
    }
    if let Some(slots) = slots_of(proto, &data) {
        if !slots.is_empty() {
            for m in muts {
                let s = slots[idx(m.slot, slots.len())];
                desc.push(write_boundary(&mut data, &s, m.val, c));
            }
        }
    }
    if fix {
        if let Some(d) = fix_commitments(proto, &data) {
            desc.push("commitments-recomputed".into());
            data = d;
        }
    }
    data
}

fn msg_kind(m: &Msg) -> String {
    let (proto, _, data) = m;
    if *proto == SupportProtocols::LightClient.protocol_id() {
        packed::LightClientMessage::from_slice(data).map(|m| m.to_enum().item_name().to_string()).unwrap_or_else(|_| "?".into())
    } else if *proto == SupportProtocols::Filter.protocol_id() {
        packed::BlockFilterMessage::from_slice(data).map(|m| m.to_enum().item_name().to_string()).unwrap_or_else(|_| "?".into())
    } else if *proto == SupportProtocols::Sync.protocol_id() {
        packed::SyncMessage::from_slice(data).map(|m| m.to_enum().item_name().to_string()).unwrap_or_else(|_| "?".into())
    } else {
        "?".into()
    }
}

fn reply_name(proto: &SupportProtocols, data: &[u8]) -> String {
    match proto {
        SupportProtocols::LightClient => packed::LightClientMessageReader::from_compatible_slice(data).map(|m| m.to_enum().item_name().to_string()).unwrap_or_else(|_| "malformed".into()),
        SupportProtocols::Filter => packed::BlockFilterMessageReader::from_compatible_slice(data).map(|m| m.to_enum().item_name().to_string()).unwrap_or_else(|_| "malformed".into()),
        SupportProtocols::Sync => packed::SyncMessageReader::from_compatible_slice(data).map(|m| m.to_enum().item_name().to_string()).unwrap_or_else(|_| "malformed".into()),
        _ => packed::RelayMessageReader::from_compatible_slice(data).map(|m| m.to_enum().item_name().to_string()).unwrap_or_else(|_| "malformed".into()),
    }
}

/// An unsolicited message in honest format.
fn fresh(w: &World, peer: &crate::lcv::sim::world::SimPeer, kind: u8, a: u8, b: u8) -> Option<(SupportProtocols, Vec<u8>)> {
    let chain = &w.chains[peer.chain];
    let tip = peer.tip.min(chain.tip());
    let view = View { chain, tip };
    let pick = |x: u8| -> u64 { (x as u64 * (tip + 1)) >> 8 };
    use crate::lcv::sim::server::{wrap_filter, wrap_lc};
    Some(match kind % 11 {
        0 => (SupportProtocols::LightClient, view.send_last_state().as_slice().to_vec()),
        1 => {
            // the last state of an earlier block (a "stale" tip)
            let v = View { chain, tip: pick(a) };
            (SupportProtocols::LightClient, v.send_last_state().as_slice().to_vec())
        }
        2 => {
            // a last-state proof nobody asked for (or a second answer)
            let start = pick(a).min(tip.saturating_sub(1));
            let req = packed::GetLastStateProof::new_builder()
                .last_hash(chain.blocks[tip as usize].hash())
                .start_hash(chain.blocks[start as usize].hash())
                .start_number(start.pack())
                .last_n_blocks((1 + b as u64 % 12).pack())
                .difficulty_boundary(chain.chain_root(tip.saturating_sub(1)).total_difficulty())
                .build();
            let (m, _) = view.send_last_state_proof(&req);
            (SupportProtocols::LightClient, wrap_lc(m).as_slice().to_vec())
        }
        3 => {
            let hashes: Vec<packed::Byte32> = (0..(1 + b % 4)).map(|i| chain.blocks[(pick(a.wrapping_add(i * 37)).max(1)).min(tip.saturating_sub(1).max(1)) as usize].hash()).collect();
            let req = packed::GetBlocksProof::new_builder().last_hash(chain.blocks[tip as usize].hash()).block_hashes(packed::Byte32Vec::new_builder().set(hashes).build()).build();
            (SupportProtocols::LightClient, crate::lcv::sim::server::blocks_proof_v1_msg(&view.send_blocks_proof(&req)).as_slice().to_vec())
        }
        4 => {
            let mut txs = vec![];
            for blk in chain.blocks.iter().skip(1).take(tip as usize) {
                for tx in blk.transactions().iter().skip(1) {
                    txs.push(tx.hash());
                }
            }
            if txs.is_empty() {
                return None;
            }
            let hashes: Vec<packed::Byte32> = (0..(1 + b % 3)).map(|i| txs[idx((a as u16) << 8 | (i as u16 * 53), txs.len())].clone()).collect();
            let req = packed::GetTransactionsProof::new_builder().last_hash(chain.blocks[tip as usize].hash()).tx_hashes(packed::Byte32Vec::new_builder().set(hashes).build()).build();
            (SupportProtocols::LightClient, crate::lcv::sim::server::txs_proof_v1_msg(&view.send_transactions_proof(&req)).as_slice().to_vec())
        }
        5 => (SupportProtocols::Filter, wrap_filter(view.block_filters(pick(a).max(1), 1 + b as usize % 20)?).as_slice().to_vec()),
        6 => (SupportProtocols::Filter, wrap_filter(view.block_filter_hashes(pick(a).max(1), 1 + b as usize % 40)?).as_slice().to_vec()),
        7 => (SupportProtocols::Filter, wrap_filter(view.block_filter_check_points(pick(a) / w.cfg.interval * w.cfg.interval, w.cfg.interval, 1 + b as usize % 10)).as_slice().to_vec()),
        10 => {
            // check points which go on beyond the chain: honest hashes as far as the chain goes, then a synthetic hash per
            // check point index, so that a later message can continue exactly where an earlier one ended
            let max_idx = tip / w.cfg.interval + 6;
            // aimed: exactly where the client expects this peer's next check points (an attacker knows what it sent
            // before), with the hash the client holds there; or anywhere
            let held: Option<(u64, packed::Byte32)> = w.c().peers.get_all_proved_check_points().get(&peer.index).and_then(|(first, cps)| cps.last().map(|h| (*first as u64 + cps.len() as u64 - 1, h.clone())));
            let anywhere = ((a >> 2) as u64 * (max_idx + 1)) >> 6;
            let (start_idx, first_hash) = match (a % 4, held) {
                (0..=2, Some((i, h))) => (i, Some(h)),
                _ => (anywhere, None),
            };
            let len = 2 + (b as u64 % 6);
            let honest = view.block_filter_check_points(start_idx * w.cfg.interval, w.cfg.interval, len as usize);
            let mut hashes: Vec<packed::Byte32> = if start_idx * w.cfg.interval <= tip { honest.block_filter_hashes().into_iter().collect() } else { vec![] };
            while (hashes.len() as u64) < len {
                let i = start_idx + hashes.len() as u64;
                hashes.push(packed::Byte32::from_slice(&[i as u8; 32]).unwrap());
            }
            if let Some(h) = first_hash {
                hashes[0] = h;
            }
            let m = packed::BlockFilterCheckPoints::new_builder().start_number((start_idx * w.cfg.interval).pack()).block_filter_hashes(packed::Byte32Vec::new_builder().set(hashes).build()).build();
            (SupportProtocols::Filter, wrap_filter(m).as_slice().to_vec())
        }
        8 => (SupportProtocols::Sync, crate::lcv::sim::server::send_block_msg(&chain.blocks[pick(a) as usize].data()).as_slice().to_vec()),
        _ => {
            // relay: hashes of known / unknown transactions
            let hashes: Vec<packed::Byte32> = (0..(b % 5)).map(|i| packed::Byte32::from_slice(&[a.wrapping_add(i); 32]).unwrap()).collect();
            let v = packed::Byte32Vec::new_builder().set(hashes).build();
            let u: packed::RelayMessageUnion = if a % 2 == 0 { packed::GetRelayTransactions::new_builder().tx_hashes(v).build().into() } else { packed::RelayTransactionHashes::new_builder().tx_hashes(v).build().into() };
            (SupportProtocols::RelayV2, packed::RelayMessage::new_builder().set(u).build().as_slice().to_vec())
        }
    })
}

fn protos() -> [SupportProtocols; 4] {
    [SupportProtocols::LightClient, SupportProtocols::Filter, SupportProtocols::Sync, SupportProtocols::RelayV2]
}

fn guarded<F: FnOnce()>(what: String, history: &[String], f: F) -> Result<(), Failure> {
    match catch_unwind(AssertUnwindSafe(f)) {
        Ok(()) => Ok(()),
        Err(_) => {
            let (msg, loc) = take_last_panic().unwrap_or_default();
            if msg.contains("long fork detected") {
                return Err(Failure::new("ENDED", "documented long-fork abort"));
            }
            if msg.contains("pump livelock") {
                return Err(Failure::new("ENDED", "livelock guard of the harness"));
            }
            Err(Failure::new(format!("panic/{}", crate::lcv::props::c14::norm_panic(&msg, &loc)), format!("{} at {} while handling {}; history: {:?}", msg, loc, what, history)))
        }
    }
}

impl Property for C10 {
    type Case = Case;
    const ID: &'static str = "C10";

    fn cases(tier: Tier) -> u32 {
        match tier {
            Tier::Quick => 20_000,
            Tier::Thorough => 300_000,
        }
    }

    fn rule() -> &'static str {
        "cases: a generated world (Eaglesong or Dummy PoW; registered scripts or none) driven into a peer-state class (connected / last state known / proof requested / proven, with GetBlocksProof, GetTransactionsProof, GetBlockFilters, GetBlockFilterHashes, GetBlockFilterCheckPoints or GetBlocks in flight) \
         x 1..4 hostile inputs: the honest answer to an in-flight request or an unsolicited honest-format message of every union variant with 0..3 fixed-size fields overwritten in place by boundary values (0, 1, 2, last_n, interval+-1, tip, cur+-1, 2^32-1, 2^32, 2^63, 2^64-2, 2^64-1; U256 0 / 1 / 2^64 / 2^255 / 2^256-2 / 2^256-1 / cur+-1; compact targets 0 / 1 / 0x01000001 / 0x20ffffff / 0x2100ffff; epochs with length 0, index >= length, all ones), \
         vectors emptied / truncated / duplicated / inconsistent, commitments of forged headers optionally recomputed so that PoW (Dummy) and chain-root checks pass; truncations, bit flips and random bytes on all four protocols; timers, clock steps, connects and disconnects in between. \
         Oracle: no handler call panics (overflow checks on) except the documented long-fork abort; the store reopens. \
         non-trivial: a hostile message that is well-formed (passes molecule verification) and differs from the honest one; distinct by (protocol, variant, state class, mutated field set)"
    }

    fn strategy(tier: Tier) -> BoxedStrategy<Case> {
        let maxlen = match tier {
            Tier::Quick => 60u16,
            Tier::Thorough => 200u16,
        };
        let op = prop_oneof![
            30 => any::<u16>().prop_map(|i| Op::S(Step::Deliver(i))),
            6 => (0u8..6).prop_map(|t| Op::S(Step::Tick(t))),
            2 => (1u8..6).prop_map(|n| Op::S(Step::Drain(n))),
            2 => (1u8..8).prop_map(|n| Op::S(Step::Grow(n))),
            2 => any::<u16>().prop_map(|k| Op::S(Step::FetchTx(k))),
            1 => any::<u16>().prop_map(|k| Op::S(Step::FetchHeader(k))),
            1 => (any::<u8>(), any::<u8>(), any::<u64>()).prop_map(|(depth, extra, seed)| Op::Switch { depth, extra, seed }),
        ];
        let muts = || prop::collection::vec((any::<u16>(), any::<u8>()).prop_map(|(slot, val)| FieldMut { slot, val }), 0..4);
        let st = || prop::option::weighted(0.25, (any::<u8>(), any::<u16>()));
        let attack = prop_oneof![
            10 => (0u8..8, any::<u16>(), muts(), st(), prop::bool::weighted(0.5)).prop_map(|(kind, req, muts, structural, fix)| Attack::Derived { kind, req, muts, structural, fix }),
            8 => (0u8..11, any::<u8>(), any::<u8>(), muts(), st(), prop::bool::weighted(0.5)).prop_map(|(kind, a, b, muts, structural, fix)| Attack::Fresh { kind, a, b, muts, structural, fix }),
            3 => (0u8..4, 0u8..4, any::<u64>(), any::<u16>()).prop_map(|(proto, mode, seed, len)| Attack::Bytes { proto, mode, seed, len }),
            2 => (0u8..6).prop_map(Attack::Tick),
            1 => (1u16..u16::MAX).prop_map(Attack::Advance),
            1 => Just(Attack::Connect),
            1 => Just(Attack::Disconnect),
        ];
        (chain_params(maxlen), any::<bool>(), net_params(), prop::collection::vec(reg_spec(), 0..3), prop::collection::vec(op, 0..40), 0u8..8, prop::collection::vec(attack, 1..5), prop_oneof![5 => Just(0u8), 1 => 1u8..8])
            .prop_map(|(mut chain, dummy_pow, mut net, initial, prefix, drive, attacks, hostile_tip)| {
                chain.len = chain.len.max(10);
                net.last_n %= 4;
                Case { chain, dummy_pow, net, initial, prefix, drive, attacks, hostile_tip }
            })
            .boxed()
    }

    fn run(case: &Case, obs: &mut Obs) -> Result<(), Failure> {
        let chain = build_chain_pow(&case.chain, case.dummy_pow);
        let cfg = build_cfg(&case.net);
        let last_n = cfg.last_n;
        let interval = cfg.interval;
        let mut sim = Sim::new(chain, cfg);
        crate::verif_hooks::set_rng_seed(Some(case.chain.seed ^ 0xc10));
        let r = run_inner(case, &mut sim, last_n, interval, obs);
        crate::verif_hooks::set_rng_seed(None);
        match r {
            Err(f) if f.signature == "ENDED" => {
                obs.label(format!("ended:{}", f.message));
                Ok(())
            }
            other => other,
        }
    }

    fn max_shrink_iters() -> u32 {
        600
    }
}

fn run_inner(case: &Case, sim: &mut Sim, last_n: u64, interval: u64, obs: &mut Obs) -> Result<(), Failure> {
    let mut history: Vec<String> = vec![];
    if !case.initial.is_empty() {
        sim.set_scripts(0, &case.initial);
    }
    guarded("connect".into(), &history, || sim.connect_quorum())?;
    // the prefix is honest traffic; a panic here belongs to this property as well (no message may terminate the client)
    for op in &case.prefix {
        if matches!(op, Op::S(Step::Restart)) {
            continue;
        }
        guarded(format!("honest prefix {:?}", op), &history, || crate::lcv::props::c08::apply(sim, op, last_n))?;
        if ended_by_ban(&sim.w).is_some() {
            obs.label("prefix-ended-by-ban");
            return Ok(());
        }
    }
    if (case.drive as usize) < KINDS.len() {
        let kind = KINDS[case.drive as usize];
        for round in 0..120 {
            if sim.w.shared.sent.lock().unwrap().iter().any(|m| msg_kind(m) == kind) {
                obs.label(format!("state:{}-in-flight", kind));
                break;
            }
            guarded("honest drive".into(), &history, || {
                if sim.w.outbox_len() == 0 {
                    if round % 3 == 2 {
                        let main = sim.main;
                        sim.w.grow(main, 1);
                    }
                    if kind == "GetTransactionsProof" && round % 5 == 1 {
                        sim.step(&Step::FetchTx((round as u16).wrapping_mul(977)));
                    }
                    sim.w.tick_all();
                    sim.w.advance(200);
                } else {
                    sim.step(&Step::Deliver(0));
                }
            })?;
            if ended_by_ban(&sim.w).is_some() {
                obs.label("prefix-ended-by-ban");
                return Ok(());
            }
        }
    }
    if case.hostile_tip != 0 {
        // some peer has to be proven first
        guarded("honest drain before the hostile tip".into(), &history, || {
            sim.w.drain(60, |_| false);
        })?;
        let proven = sim.w.connected_peers().iter().find_map(|p| sim.w.c().peers.get_state(&p.index).and_then(|s| s.get_prove_state().map(|ps| ps.get_last_header().header().clone())));
        if let (Some(ph), None) = (proven, ended_by_ban(&sim.w)) {
            let main = sim.main;
            let pe = ph.epoch();
            let (num, idx_p, len_p) = (pe.number(), pe.index(), pe.length());
            let claimed = match case.hostile_tip % 7 {
                // same epoch number, other length; the index is smaller although the fraction index/length is not
                1 => (num, idx_p.saturating_sub(1), (len_p / 3).max(1)),
                2 => (num, idx_p / 2, (len_p / 2).max(1)),
                3 => (num, 0, 0),
                4 => (num, len_p + 3, len_p),
                5 => (num, idx_p, len_p),
                6 => (num.saturating_sub(1), idx_p + 1, len_p),
                _ => (0, 0, 0),
            };
            let grow = last_n + 2 + case.chain.seed % 3;
            sim.w.chains[main].mine_n(grow - 1);
            sim.w.chains[main].epoch_override = Some(claimed);
            history.push(format!("hostile tip after {} blocks claiming epoch {}({}/{}) while the proven header is in {}({}/{})", grow, claimed.0, claimed.1, claimed.2, num, idx_p, len_p));
            obs.label("hostile-chain-tip-with-malformed-epoch");
            let h = history.clone();
            guarded("hostile tip announced, proof requested and served".into(), &h, || {
                sim.w.grow(main, 1);
                sim.w.drain(30, |_| false);
            })?;
            // banned peers leave, the network re-dials
            let banned: Vec<_> = sim.w.bans().iter().map(|(p, _)| *p).collect();
            for p in banned {
                if sim.w.peer(p).map(|x| x.connected).unwrap_or(false) {
                    sim.w.disconnect(p);
                }
            }
            sim.w.shared.banned.lock().unwrap().clear();
        }
    }
    let mut prng = Prng::new(case.chain.seed ^ 0x10c);
    for at in &case.attacks {
        let peers = sim.w.connected_peers();
        let peer = match peers.first() {
            Some(p) => p.clone(),
            None => {
                // every peer was banned / dropped: a new one connects
                guarded("connect".into(), &history, || sim.connect_quorum())?;
                match sim.w.connected_peers().first() {
                    Some(p) => p.clone(),
                    None => return Ok(()),
                }
            }
        };
        let c = Ctx { last_n, interval, tip: sim.w.chains[peer.chain].tip() };
        let state = sim.w.c().peers.get_state(&peer.index).map(|s| s.to_string().split(|ch: char| !ch.is_alphanumeric() && ch != ':').next().unwrap_or("").to_string()).unwrap_or_else(|| "no-state".into());
        match at {
            Attack::Tick(t) => {
                history.push(format!("tick({})", t));
                let h = history.clone();
                guarded(format!("tick {}", t), &h, || sim.step(&Step::Tick(*t)))?;
            }
            Attack::Advance(ms) => {
                history.push(format!("advance({})", ms));
                sim.w.advance(*ms as u64 * 4);
            }
            Attack::Connect => {
                history.push("connect".into());
                let h = history.clone();
                let tip = sim.w.chains[sim.main].tip();
                let main = sim.main;
                guarded("connected".into(), &h, || {
                    sim.w.connect(main, tip, true);
                })?;
            }
            Attack::Disconnect => {
                history.push("disconnect".into());
                let h = history.clone();
                guarded("disconnected".into(), &h, || sim.w.disconnect(peer.index))?;
            }
            Attack::Bytes { proto, mode, seed, len } => {
                let p = protos()[*proto as usize % 4].clone();
                let mut r = Prng::new(*seed);
                let honest: Vec<u8> = fresh(&sim.w, &peer, (r.next() % 11) as u8, r.next() as u8, r.next() as u8).filter(|(pp, _)| pp.protocol_id() == p.protocol_id()).map(|(_, d)| d).unwrap_or_default();
                let data: Vec<u8> = match mode % 4 {
                    0 if !honest.is_empty() => honest[..(*len as usize % honest.len())].to_vec(),
                    3 if !honest.is_empty() => {
                        let mut d = honest.clone();
                        for _ in 0..(1 + len % 4) {
                            let i = (r.next() as usize) % d.len();
                            d[i] ^= 1 << (r.next() % 8);
                        }
                        d
                    }
                    1 => {
                        // a valid union header (item id) followed by random bytes
                        let n = 4 + (*len as usize % 300);
                        let mut d: Vec<u8> = (0..n).map(|_| r.next() as u8).collect();
                        let id = (r.next() % 9) as u32;
                        d[..4].copy_from_slice(&id.to_le_bytes());
                        d
                    }
                    _ => (0..(*len as usize % 200)).map(|_| r.next() as u8).collect(),
                };
                history.push(format!("bytes({:?},mode {},{} bytes)", p.protocol_id(), mode % 4, data.len()));
                let h = history.clone();
                guarded(format!("{} raw bytes on {:?}", data.len(), p.protocol_id()), &h, || sim.w.deliver(p.clone(), peer.index, P2pBytes::from(data)))?;
            }
            Attack::Derived { .. } | Attack::Fresh { .. } => {
                let (proto, honest, muts, st, fix, origin) = match at {
                    Attack::Derived { kind, req, muts, structural, fix } => {
                        // the in-flight request to answer
                        let n = sim.w.outbox_len();
                        if n == 0 {
                            continue;
                        }
                        let want = KINDS.get(*kind as usize).copied();
                        let of_kind: Vec<usize> = (0..n).filter(|j| sim.w.shared.sent.lock().unwrap().get(*j).map(|m| Some(msg_kind(m).as_str()) == want).unwrap_or(false)).collect();
                        let j = if of_kind.is_empty() { idx(*req, n) } else { of_kind[idx(*req, of_kind.len())] };
                        let msg = sim.w.take_request(j).unwrap();
                        let to = msg.1;
                        let name = msg_kind(&msg);
                        let mut out = None;
                        let h = history.clone();
                        guarded(format!("(harness) honest reply to {}", name), &h, || {
                            let replies = sim.w.honest_replies(&msg);
                            if !replies.is_empty() {
                                let pick = prng.next() as usize % replies.len();
                                out = Some(replies[pick].clone());
                            }
                        })?;
                        match out {
                            Some((p, d)) => (p, d.to_vec(), muts, structural, *fix, format!("reply-to-{}@{}", name, to)),
                            None => continue,
                        }
                    }
                    Attack::Fresh { kind, a, b, muts, structural, fix } => match fresh(&sim.w, &peer, *kind, *a, *b) {
                        Some((p, d)) => (p, d, muts, structural, *fix, "unsolicited".to_string()),
                        None => continue,
                    },
                    _ => unreachable!(),
                };
                let mut desc = vec![];
                let data = mutate(&proto, &honest, muts, st, fix, &c, &mut desc);
                let variant = reply_name(&proto, &data);
                let changed = data != honest;
                history.push(format!("{}:{}[{}] in state {}", origin, variant, desc.join(","), state));
                let h = history.clone();
                guarded(format!("{} {} [{}] (peer state {})", origin, variant, desc.join(", "), state), &h, || sim.w.deliver(proto.clone(), peer.index, P2pBytes::from(data)))?;
                if changed && variant != "malformed" {
                    let mut fields: Vec<String> = desc.iter().map(|d| d.split(|ch| ch == '=' || ch == '~' || ch == '(').next().unwrap_or("").to_string()).collect();
                    fields.sort();
                    fields.dedup();
                    obs.nontrivial((variant.clone(), state.clone(), fields, origin.starts_with("reply")));
                }
                obs.label(format!("{}/{}", variant, if origin.starts_with("reply") { "solicited" } else { "unsolicited" }));
            }
        }
        // whatever was planted must not trip a later timer either
        let h = history.clone();
        guarded("timers after the message".into(), &h, || {
            sim.w.process_disconnect_requests();
            sim.w.tick_all();
        })?;
    }
    // a few honest rounds afterwards (planted values meet honest traffic), then the store must reopen
    let h = history.clone();
    guarded("honest traffic after the attack".into(), &h, || {
        sim.connect_quorum();
        sim.w.drain(6, |_| false);
    })?;
    guarded("restart".into(), &h, || sim.w.restart())?;
    Ok(())
}
