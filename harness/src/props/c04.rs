//! C04 — after a fork switch the index reflects only the new chain and sync resumes; a fork that
//! shares none of the remembered headers is never adopted piecemeal (documented long-fork abort).

use std::panic::{catch_unwind, AssertUnwindSafe};

use ckb_types::prelude::*;
use proptest::prelude::*;
use serde::{Deserialize, Serialize};
use serde_json::json;

use crate::lcv::pbt::*;
use crate::lcv::props::common::*;

#[derive(Debug, Clone, Serialize, Deserialize)]
pub struct Case {
    pub chain: ChainParams,
    pub net: NetParams,
    pub initial: Vec<RegSpec>,
    /// schedule on branch A before the switch (partial sync when `full_sync_first` is false)
    pub before: Vec<Step>,
    pub full_sync_first: bool,
    /// fork depth below A's tip
    pub depth: u8,
    /// how many blocks B is longer than A
    pub extra: u8,
    pub restart_before_switch: bool,
    /// peers reconnect (fresh state) instead of announcing the new tip on the same connection
    pub reconnect: bool,
    pub fork_seed: u64,
    pub after: Vec<Step>,
    /// right before the switch: set_scripts(partial) of one more script (rewinds the filter cursor while the other
    /// scripts stay ahead), then a few rounds of sync, so that the switch meets records computed for a subset of the scripts
    #[serde(default)]
    pub late_partial: Option<(RegSpec, u8)>,
}

pub struct C04;

impl Property for C04 {
    type Case = Case;
    const ID: &'static str = "C04";

    fn cases(tier: Tier) -> u32 {
        match tier {
            Tier::Quick => 10_000,
            Tier::Thorough => 60_000,
        }
    }

    fn rule() -> &'static str {
        "cases: chain A with script activity, synced fully or mid-way (pending matched blocks, mid filter batch), then every honest peer moves to a heavier branch B forking `depth` blocks below A's tip \
         (depth below / at / above last_n and the stored last-N window), with or without restart / reconnect, followed by a schedule and a fair drain on B. Short forks: reference index of B, no record of an A-only block, goal reached. \
         Long forks: store untouched until the documented panic after the from-genesis proof. non-trivial: A-only blocks contained activity of a registered script and were indexed before the switch; \
         distinct by (depth class, restart, reconnect, pending-record position, last_n, schedule hash)"
    }

    fn strategy(tier: Tier) -> BoxedStrategy<Case> {
        let maxlen = match tier {
            Tier::Quick => 100u16,
            Tier::Thorough => 200u16,
        };
        (
            chain_params(maxlen),
            net_params(),
            prop::collection::vec(reg_spec(), 1..3),
            // one history in three has user actions before the switch (set_scripts rewinds the filter cursor: the pending
            // records then cover a subset of the scripts)
            prop_oneof![2 => prop::collection::vec(step_strategy(false), 0..20), 1 => prop::collection::vec(step_strategy(true), 0..20)],
            prop::bool::weighted(0.6),
            1u8..30,
            1u8..8,
            prop::bool::weighted(0.3),
            prop::bool::weighted(0.3),
            any::<u64>(),
            (prop::collection::vec(step_strategy(false), 0..12), prop::option::weighted(0.3, (reg_spec(), 0u8..8))),
        )
            .prop_map(|(mut chain, mut net, mut initial, before, full_sync_first, depth, extra, restart_before_switch, reconnect, fork_seed, (after, mut late_partial))| {
                if let Some((r, _)) = late_partial.as_mut() {
                    if r.start_kind > 1 {
                        r.start_kind = 0;
                    }
                    r.pos /= 4;
                }
                chain.density = chain.density.max(60);
                // implicit precondition of the design (production: interval 2000 >> last_n 100): a fork never reaches
                // below a check point a peer can hold, i.e. depth < interval; and long forks need last_n < interval
                net.last_n %= 4; // {2,3,5,10}
                net.interval = 2 + net.interval % 2; // see build_cfg: index into [4, 8, 16, 32]
                chain.len = chain.len.max(12);
                for r in initial.iter_mut() {
                    // scripts start at 0 or early so that the fork region is in range
                    if r.start_kind > 1 {
                        r.start_kind = 0;
                    }
                    r.pos /= 4;
                }
                Case { chain, net, initial, before, full_sync_first, depth, extra, restart_before_switch, reconnect, fork_seed, after, late_partial }
            })
            .boxed()
    }

    fn run(case: &Case, obs: &mut Obs) -> Result<(), Failure> {
        let chain = build_chain(&case.chain);
        let cfg = build_cfg(&case.net);
        let last_n = cfg.last_n;
        let mut sim = Sim::new(chain, cfg);
        crate::verif_hooks::set_rng_seed(Some(case.chain.seed ^ 0xc04));
        sim.set_scripts(0, &case.initial);
        sim.connect_quorum();
        // growth on A before the switch would move A's tip: keep the schedule but without growth
        for st in &case.before {
            if matches!(st, Step::Grow(_)) {
                continue;
            }
            sim.step(st);
            if let Some(l) = ended_by_ban(&sim.w) {
                crate::verif_hooks::set_rng_seed(None);
                obs.label(l);
                return Ok(());
            }
        }
        if case.full_sync_first {
            if let Err(f) = sim.finish() {
                crate::verif_hooks::set_rng_seed(None);
                if f.signature.starts_with("honest-peer-") {
                    obs.label(format!("ended-by-ban:{}", f.signature));
                    return Ok(());
                }
                return Err(Failure::new(format!("before-switch/{}", f.signature), f.message));
            }
        }
        if let Some((spec, rounds)) = &case.late_partial {
            obs.label("late-partial-set_scripts");
            sim.set_scripts(1, std::slice::from_ref(spec));
            if *rounds > 0 {
                sim.w.drain(*rounds as usize, |_| false);
            }
            if let Some(l) = ended_by_ban(&sim.w) {
                crate::verif_hooks::set_rng_seed(None);
                obs.label(l);
                return Ok(());
            }
        }
        // build branch B
        let a_tip = sim.w.chains[0].tip();
        let interval = sim.w.cfg.interval;
        // mostly shallow forks; never as deep as the check point interval
        let raw = case.depth as u64;
        let depth = (if raw % 3 == 0 { raw % (interval - 1) } else { raw % (last_n + 2) } + 1).min(interval - 1).min(a_tip.saturating_sub(1)).max(1);
        let f = a_tip - depth;
        let mut b = sim.w.chains[0].fork_at(f, case.fork_seed);
        b.mine_n(depth + case.extra as u64);
        sim.w.chains.push(b);
        // what the client has indexed / remembers right before the switch
        let stored_tip_before: u64 = sim.w.storage().get_tip_header().raw().number().unpack();
        let stored_tip_hash_before = sim.w.storage().get_tip_header().calc_header_hash();
        let on_a = sim.w.chains[0].blocks.get(stored_tip_before as usize).map(|x| x.hash() == stored_tip_hash_before).unwrap_or(false);
        let remembered = sim.w.storage().get_last_n_headers();
        let bchain = &sim.w.chains[1];
        let shares_remembered = remembered.iter().any(|(n, h)| bchain.blocks.get(*n as usize).map(|x| &x.hash() == h).unwrap_or(false));
        let tip_on_b = stored_tip_before <= f;
        let min_filtered_before = sim.w.storage().get_min_filtered_block_number();
        let pending_before = sim.w.storage().get_earliest_matched_blocks().map(|(s, c, _)| (s, c));
        // activity of registered scripts in A-only blocks that were already filtered
        let mut a_only_activity = 0;
        for r in sim.regs.values() {
            for ci in sim.w.chains[0].cells.values() {
                if ci.block > f && ci.block <= min_filtered_before && r.matches(&ci.output) && r.in_range(ci.block) {
                    a_only_activity += 1;
                }
            }
        }
        let depth_class = if tip_on_b {
            "tip-not-beyond-fork-point"
        } else if stored_tip_before - f < last_n {
            "below-last-n"
        } else if stored_tip_before - f == last_n {
            "at-last-n"
        } else {
            "above-last-n"
        };
        obs.label(format!("depth:{}", depth_class));
        let long_fork = !tip_on_b && !shares_remembered && on_a;
        obs.label(if long_fork { "long-fork" } else { "short-fork" });
        if case.restart_before_switch {
            obs.label("restart-before-switch");
            sim.step(&Step::Restart);
        }
        // the switch
        sim.w.record_tip_moves = true;
        sim.main = 1;
        let b_tip = sim.w.chains[1].tip();
        let store_before = sim.w.store_digest();
        let fork_point = f;
        if case.reconnect || case.restart_before_switch {
            for p in sim.w.connected_peers() {
                sim.w.disconnect(p.index);
            }
            sim.connect_quorum();
        } else {
            for p in sim.w.connected_peers() {
                sim.w.switch_peer(p.index, 1, b_tip);
            }
        }
        let result = catch_unwind(AssertUnwindSafe(|| -> Result<(), Failure> {
            for st in &case.after {
                sim.step(st);
                if let Some(l) = ended_by_ban(&sim.w) {
                    return Err(Failure::new("ENDED", l));
                }
            }
            sim.finish()
        }));
        crate::verif_hooks::set_rng_seed(None);
        match result {
            Err(_) => {
                let (msg, loc) = take_last_panic().unwrap_or_default();
                if msg.contains("long fork detected") {
                    obs.label("long-fork-panic");
                    if !long_fork {
                        // where was the stored tip when the "fork" was detected?
                        let t = sim.w.storage().get_tip_header();
                        let tn: u64 = t.raw().number().unpack();
                        let on_b = sim.w.chains[1].blocks.get(tn as usize).map(|x| x.hash() == t.calc_header_hash()).unwrap_or(false) && tn > f;
                        let sig = if on_b { "long-fork-abort-on-a-short-fork/store-already-on-new-branch" } else { "documented-long-fork-abort-on-a-short-fork" };
                        return tolerate(obs, Failure::new(sig, format!("depth {} last_n {} remembered {} tip_before {} stored tip at abort {}", depth, last_n, remembered.len(), stored_tip_before, tn)));
                    }
                    obs.nontrivial(("long", depth_class, last_n, case.restart_before_switch, case.reconnect));
                    return Ok(());
                }
                if msg.contains("pump livelock") && long_fork {
                    return tolerate(obs, Failure::new("long-fork/livelock-tau-recheck-vs-from-genesis-request", format!("{} :: depth {} last_n {}", msg, depth, last_n)));
                }
                return Err(Failure::new(format!("panic/{}", crate::lcv::props::c14::norm_panic(&msg, &loc)), format!("depth {} last_n {}", depth, last_n)));
            }
            Ok(Err(f)) if f.signature == "ENDED" => {
                obs.label(f.message);
                return Ok(());
            }
            Ok(Err(f)) => {
                if f.signature.starts_with("honest-peer-") {
                    // bans that C05 already records as known findings end the history; a ban caused by the fork
                    // switch itself is this property's business
                    let c05_known = ["no-sample-below-last-n", "stale-duplicate-answer", "nk-even", "proof-request-not-rebuilt"];
                    if c05_known.iter().any(|k| f.signature.contains(k)) {
                        obs.label(format!("ended-by-ban:{}", f.signature));
                        return Ok(());
                    }
                    let mut sig = if long_fork { format!("long-fork/banned-before-abort/{}", f.signature) } else { format!("after-switch/{}", f.signature) };
                    if f.signature.contains("BlockFilterHashesIsUnexpected") {
                        // did it happen in the window in which the peer already serves the new branch but the client has not
                        // processed its proof yet (known finding D22c), or afterwards?
                        let ban_at = sim.w.shared.ban_events.lock().unwrap().first().cloned().unwrap_or(u64::MAX);
                        let bch = &sim.w.chains[1];
                        let moved_to_b_at = sim.w.tip_moves.iter().find(|(_, h)| bch.number_of(h).map(|n| n > fork_point).unwrap_or(false)).map(|(e, _)| *e).unwrap_or(u64::MAX);
                        sig.push_str(if ban_at > moved_to_b_at { "/after-the-new-branch-was-proven" } else { "/while-the-client-was-still-on-the-old-branch" });
                    }
                    return tolerate(obs, Failure::new(sig, f.message));
                }
                if long_fork {
                    // a long fork must end in the documented abort; until then the store must be untouched
                    let same = sim.w.store_digest() == store_before;
                    return Err(Failure::new(
                        if same { "long-fork/no-abort-store-untouched" } else { "long-fork/adopted-piecemeal" },
                        format!("{} :: depth {} last_n {}", f.message, depth, last_n),
                    ));
                }
                // stuck because a pending matched-block record still names a block of the abandoned branch?
                let mut sig = format!("after-switch/{}", f.signature);
                if f.signature.starts_with("stuck/") {
                    let a = &sim.w.chains[0];
                    let bch = &sim.w.chains[1];
                    if let Some((_, _, hashes)) = sim.w.storage().get_earliest_matched_blocks() {
                        if hashes.iter().any(|(h, _)| a.number_of(h).map(|n| n > fork_point).unwrap_or(false) && bch.number_of(h).is_none()) {
                            sig = "after-switch/stuck/waiting-for-a-block-of-the-abandoned-branch".to_string();
                        }
                    }
                }
                return tolerate(obs, Failure::new(sig, format!("{} :: depth {} ({}), last_n {}, restart {}, reconnect {}", f.message, depth, depth_class, last_n, case.restart_before_switch, case.reconnect)));
            }
            Ok(Ok(())) => {}
        }
        if long_fork {
            return Err(Failure::new("long-fork/adopted-without-abort", format!("depth {} last_n {} remembered {:?}", depth, last_n, remembered.iter().map(|(n, _)| *n).collect::<Vec<_>>())));
        }
        // no pending record may refer to an A-only block
        let a = &sim.w.chains[0];
        let bch = &sim.w.chains[1];
        if let Some((_, _, hashes)) = sim.w.storage().get_earliest_matched_blocks() {
            for (h, _) in hashes {
                if a.number_of(&h).map(|n| n > f).unwrap_or(false) && bch.number_of(&h).is_none() {
                    return Err(Failure::new("pending-record-of-abandoned-block", format!("{:#x}", h)));
                }
            }
        }
        if let Err(fl) = sim.compare_all() {
            return tolerate(obs, Failure::new(format!("after-switch/{}", fl.signature), format!("{} :: depth {} ({}), last_n {}, restart {}, reconnect {}, pending_before {:?}", fl.message, depth, depth_class, last_n, case.restart_before_switch, case.reconnect, pending_before)));
        }
        obs.note("stats", json!(sim.w.stats));
        if a_only_activity > 0 && !tip_on_b {
            use std::hash::{Hash, Hasher};
            let mut h = std::collections::hash_map::DefaultHasher::new();
            format!("{:?}{:?}", case.before, case.after).hash(&mut h);
            let pend = pending_before.map(|(s, c)| if s + c <= f { 0 } else if s > f { 2 } else { 1 });
            obs.nontrivial((depth_class, case.restart_before_switch, case.reconnect, pend, last_n, h.finish()));
        }
        Ok(())
    }
}
