//! C09 — set_scripts semantics: documented script set (replace / upsert / remove), pending matched
//! blocks discarded, filter sync rewound far enough for every kept script; get_scripts never
//! claims progress over a block whose activity was skipped.

use std::collections::BTreeMap;

use ckb_types::prelude::*;
use proptest::prelude::*;
use serde::{Deserialize, Serialize};
use serde_json::json;

use crate::lcv::oracle::index::{all_txs, reference, HistEntry, Reg, SType};
use crate::lcv::pbt::*;
use crate::lcv::props::common::*;
use crate::lcv::sim::world::World;

#[derive(Debug, Clone, Serialize, Deserialize)]
pub struct Case {
    pub chain: ChainParams,
    pub net: NetParams,
    pub initial: Vec<RegSpec>,
    pub steps: Vec<Step>,
}

pub struct C09;

fn steps() -> BoxedStrategy<Step> {
    prop_oneof![
        6 => any::<u16>().prop_map(Step::Deliver),
        2 => Just(Step::Pump),
        3 => (0u8..6).prop_map(Step::Tick),
        1 => (1u8..8).prop_map(Step::Grow),
        1 => Just(Step::Restart),
        5 => (0u8..3, prop::collection::vec(reg_spec(), 0..4)).prop_map(|(c, r)| Step::SetScripts(c, r)),
        4 => (1u8..8).prop_map(Step::Drain),
    ]
    .boxed()
}

/// get_scripts must equal the model (script set and recorded numbers right after the call).
fn check_script_set(sim: &Sim) -> Result<(), Failure> {
    let got: BTreeMap<(Vec<u8>, bool), u64> = sim
        .w
        .storage()
        .get_filter_scripts()
        .into_iter()
        .map(|ss| ((ss.script.as_slice().to_vec(), matches!(ss.script_type, crate::storage::ScriptType::Type)), ss.block_number))
        .collect();
    let want: BTreeMap<(Vec<u8>, bool), ()> = sim.regs.keys().map(|k| (k.clone(), ())).collect();
    if got.keys().collect::<Vec<_>>() != want.keys().collect::<Vec<_>>() {
        return Err(Failure::new("script-set-differs-from-documented", format!("got {} scripts, model {}", got.len(), want.len())));
    }
    Ok(())
}

/// No script may be reported as filtered up to `n` while an in-range block <= n with activity of
/// that script is absent from the index.
pub fn check_progress_claims(w: &World, regs: &BTreeMap<(Vec<u8>, bool), Reg>, chain_idx: usize) -> Result<(), Failure> {
    let chain = &w.chains[chain_idx];
    let stored_tip: u64 = w.storage().get_tip_header().raw().number().unpack();
    for ss in w.storage().get_filter_scripts() {
        let stype = if matches!(ss.script_type, crate::storage::ScriptType::Type) { SType::Type } else { SType::Lock };
        let key = (ss.script.as_slice().to_vec(), stype == SType::Type);
        let reg = match regs.get(&key) {
            Some(r) => r,
            None => continue,
        };
        let n = ss.block_number.min(stored_tip).min(chain.tip());
        if n <= reg.start {
            continue;
        }
        let r = reference(chain, n, reg);
        if r.must_history.is_empty() {
            continue;
        }
        let got: std::collections::BTreeSet<HistEntry> = all_txs(w, reg, 200)
            .map_err(|e| Failure::new("rpc-error", e))?
            .iter()
            .map(|t| HistEntry {
                block: hexu(&t["block_number"]),
                tx_index: hexu(&t["tx_index"]) as u32,
                io_index: hexu(&t["io_index"]) as u32,
                is_input: t["io_type"] == "input",
                tx_hash: t["transaction"]["hash"].as_str().unwrap_or("").to_string(),
            })
            .collect();
        for e in &r.must_history {
            if !got.contains(e) {
                return Err(Failure::new(
                    "progress-claimed-over-skipped-block",
                    format!("get_scripts reports {} for script args {:?} (recorded start {}), but the activity {:?} is not indexed", ss.block_number, ss.script.args().raw_data(), reg.start, e),
                ));
            }
        }
    }
    Ok(())
}

fn hexu(v: &serde_json::Value) -> u64 {
    v.as_str().and_then(|s| u64::from_str_radix(s.trim_start_matches("0x"), 16).ok()).unwrap_or(u64::MAX)
}

impl Property for C09 {
    type Case = Case;
    const ID: &'static str = "C09";

    fn cases(tier: Tier) -> u32 {
        match tier {
            Tier::Quick => 1400,
            Tier::Thorough => 12_000,
        }
    }

    fn rule() -> &'static str {
        "cases: generated chain x initial registrations x schedule dense in set_scripts(all|partial|delete; empty lists, duplicates, unknown scripts, starts below/at/above progress and above the tip) issued between \
         deliveries, ticks, partial drains, growth and restarts; after every call: script set = README model, no pending matched blocks (store and memory), min_filtered <= min recorded number; after every step: no progress claim over a skipped block; \
         finally fair drain + reference index. non-trivial: a partial or delete call issued while matched blocks are pending for a script that stays registered; distinct by (command, kept scripts, pending record position bucket, schedule hash)"
    }

    fn strategy(tier: Tier) -> BoxedStrategy<Case> {
        let maxlen = match tier {
            Tier::Quick => 120u16,
            Tier::Thorough => 300u16,
        };
        (chain_params(maxlen), net_params(), prop::collection::vec(reg_spec(), 1..4), prop::collection::vec(steps(), 1..40))
            .prop_map(|(mut chain, net, initial, steps)| {
                chain.density = chain.density.max(50);
                Case { chain, net, initial, steps }
            })
            .boxed()
    }

    fn run(case: &Case, obs: &mut Obs) -> Result<(), Failure> {
        let chain = build_chain(&case.chain);
        let mut sim = Sim::new(chain, build_cfg(&case.net));
        crate::verif_hooks::set_rng_seed(Some(case.chain.seed ^ 0xc09));
        sim.set_scripts(0, &case.initial);
        sim.connect_quorum();
        let mut nt: Vec<(u8, usize, u64)> = vec![];
        for st in &case.steps {
            let pending = sim.w.storage().get_earliest_matched_blocks();
            let min_before = sim.w.storage().get_min_filtered_block_number();
            let had_scripts = !sim.regs.is_empty();
            sim.step(st);
            if let Some(l) = ended_by_ban(&sim.w) {
                crate::verif_hooks::set_rng_seed(None);
                obs.label(l);
                return Ok(());
            }
            if let Step::SetScripts(cmd, specs) = st {
                check_script_set(&sim)?;
                let noop = specs.is_empty() && cmd % 3 != 0;
                let s = sim.w.storage();
                if !noop {
                    if s.get_earliest_matched_blocks().is_some() {
                        return Err(Failure::new("pending-matched-blocks-survive-set_scripts", format!("cmd {} record {:?}", cmd, s.get_earliest_matched_blocks().map(|(a, b, c)| (a, b, c.len())))));
                    }
                    // recorded numbers right after the call are the given ones for mentioned scripts
                    for ss in s.get_filter_scripts() {
                        let key = (ss.script.as_slice().to_vec(), matches!(ss.script_type, crate::storage::ScriptType::Type));
                        if let Some(r) = sim.regs.get(&key) {
                            let mentioned = specs.iter().any(|sp| {
                                let (sc, st) = spec_script(sp);
                                sc == r.script && st == r.stype
                            });
                            if mentioned && cmd % 3 != 2 && ss.block_number != r.start {
                                return Err(Failure::new("recorded-start-differs-from-given", format!("given {} recorded {}", r.start, ss.block_number)));
                            }
                        }
                    }
                    // filter sync must restart at or below the start number given for every mentioned script
                    // (recorded numbers of untouched scripts may legitimately lag behind their real progress)
                    let minf = s.get_min_filtered_block_number();
                    if cmd % 3 != 2 {
                        for sp in specs.iter() {
                            let (sc, st) = spec_script(sp);
                            if let Some(r) = sim.regs.values().find(|r| r.script == sc && r.stype == st) {
                                if minf > r.start {
                                    return Err(Failure::new("min_filtered-above-given-start", format!("min_filtered {} > given start {}", minf, r.start)));
                                }
                            }
                        }
                    } else if had_scripts && minf > min_before {
                        return Err(Failure::new("min_filtered-moved-forward-on-delete", format!("{} -> {}", min_before, minf)));
                    }
                }
                if sim.w.c().peers.matched_blocks().read().unwrap().len() != 0 {
                    return Err(Failure::new("memory-matched-blocks-survive-set_scripts", String::new()));
                }
                if let Some((start, _, hashes)) = &pending {
                    if cmd % 3 != 0 && !specs.is_empty() && !sim.regs.is_empty() {
                        nt.push((*cmd % 3, sim.regs.len(), (*start / 8).min(32) + hashes.len() as u64 * 100));
                    }
                }
            }
            check_progress_claims(&sim.w, &sim.regs, 0)?;
        }
        let fin = sim.finish();
        crate::verif_hooks::set_rng_seed(None);
        if let Err(f) = fin {
            if f.signature.starts_with("honest-peer-") {
                obs.label(format!("ended-by-ban:{}", f.signature));
                return Ok(());
            }
            return Err(f);
        }
        check_progress_claims(&sim.w, &sim.regs, 0)?;
        sim.compare_all()?;
        obs.note("stats", json!(sim.w.stats));
        obs.label(format!("set_scripts-calls:{}", sim.set_scripts_calls.min(9)));
        if !nt.is_empty() {
            use std::hash::{Hash, Hasher};
            let mut h = std::collections::hash_map::DefaultHasher::new();
            format!("{:?}", case.steps).hash(&mut h);
            obs.label("partial/delete-while-pending");
            obs.nontrivial((nt, h.finish()));
        }
        Ok(())
    }
}
