//! Runner glue: proptest `TestRunner` driven from `main`, case classification, known-finding
//! tolerance, replay, and the JSON result a worker hands back to `./check`.

use std::cell::RefCell;
use std::collections::{BTreeMap, BTreeSet};
use std::fmt::Debug;
use std::hash::{Hash, Hasher};
use std::rc::Rc;
use std::time::Instant;

use proptest::strategy::{BoxedStrategy, Strategy};
use proptest::test_runner::{Config, RngAlgorithm, RngSeed, TestCaseError, TestError, TestRunner};
use serde::{de::DeserializeOwned, Serialize};
use serde_json::{json, Value};

#[derive(Debug, Clone, Copy, PartialEq, Eq)]
pub enum Tier {
    Quick,
    Thorough,
}

/// A property violation found on one case.
#[derive(Debug, Clone)]
pub struct Failure {
    /// Specific, stable identification of *what* failed (used to match known findings).
    pub signature: String,
    pub message: String,
}

impl Failure {
    pub fn new(signature: impl Into<String>, message: impl Into<String>) -> Self {
        Failure {
            signature: signature.into(),
            message: message.into(),
        }
    }
}

/// Per-case observer: labels, non-triviality, free-form notes for samples.
#[derive(Default)]
pub struct Obs {
    pub labels: Vec<String>,
    pub nontrivial_keys: Vec<u64>,
    pub notes: Vec<(String, Value)>,
    /// Known findings tolerated inside this case (signature, message).
    pub known_hits: Vec<(String, String)>,
}

impl Obs {
    pub fn label(&mut self, l: impl Into<String>) {
        self.labels.push(l.into());
    }
    /// Marks the case as non-trivial; `key` identifies its class for the distinct count.
    pub fn nontrivial<K: Hash>(&mut self, key: K) {
        let mut h = std::collections::hash_map::DefaultHasher::new();
        key.hash(&mut h);
        self.nontrivial_keys.push(h.finish());
    }
    pub fn note(&mut self, k: &str, v: Value) {
        self.notes.push((k.to_string(), v));
    }
}

pub trait Property {
    type Case: Debug + Clone + Serialize + DeserializeOwned + 'static;
    const ID: &'static str;
    fn strategy(tier: Tier) -> BoxedStrategy<Self::Case>;
    /// Default number of cases for the whole check (split across workers).
    fn cases(tier: Tier) -> u32;
    fn rule() -> &'static str;
    fn run(case: &Self::Case, obs: &mut Obs) -> Result<(), Failure>;
    /// Deterministic extra work that is not proptest-driven (exhaustive grids, probes).
    /// Runs on shard 0 only. Returns failures (already classified).
    fn extra(_tier: Tier, _acc: &mut Acc) {}
    fn max_shrink_iters() -> u32 {
        400
    }
}

/// Accumulated result of a worker.
#[derive(Default)]
pub struct Acc {
    pub evaluations: u64,
    pub labels: BTreeMap<String, u64>,
    pub nontrivial: BTreeSet<u64>,
    pub samples: Vec<Value>,
    pub nontrivial_samples: Vec<Value>,
    pub failures: Vec<Value>,
    pub known: BTreeMap<String, (u64, String, Value)>,
    pub extra: BTreeMap<String, Value>,
    pub exhaustive: Option<bool>,
    /// distinct non-trivial cases known to be distinct by construction (exhaustive enumerations)
    pub distinct_extra: u64,
}

impl Acc {
    pub fn absorb<C: Serialize>(&mut self, case: &C, obs: Obs) {
        self.evaluations += 1;
        for l in &obs.labels {
            *self.labels.entry(l.clone()).or_default() += 1;
        }
        let nt = !obs.nontrivial_keys.is_empty();
        for k in &obs.nontrivial_keys {
            self.nontrivial.insert(*k);
        }
        for (sig, msg) in &obs.known_hits {
            let e = self
                .known
                .entry(sig.clone())
                .or_insert_with(|| (0, msg.clone(), serde_json::to_value(case).unwrap_or(Value::Null)));
            e.0 += 1;
        }
        let want = if nt { &mut self.nontrivial_samples } else { &mut self.samples };
        if want.len() < 3 {
            let mut v = json!({ "case": serde_json::to_value(case).unwrap_or(Value::Null), "labels": obs.labels });
            for (k, val) in obs.notes {
                v[k] = val;
            }
            want.push(v);
        }
    }
    pub fn count_label(&mut self, l: &str, n: u64) {
        *self.labels.entry(l.to_string()).or_default() += n;
    }
    pub fn fail(&mut self, f: &Failure, case: Value) {
        self.failures.push(json!({"signature": f.signature, "message": f.message, "case": case}));
    }
    pub fn known_hit(&mut self, sig: &str, msg: &str, case: Value) {
        let e = self.known.entry(sig.to_string()).or_insert_with(|| (0, msg.to_string(), case));
        e.0 += 1;
    }
}

/// The set of known-finding signatures for one property (status == "known").
pub struct Known {
    pub sigs: BTreeSet<String>,
}

impl Known {
    pub fn load(prop: &str) -> Known {
        let path = std::env::var("LCV_KNOWN").unwrap_or_else(|_| "/verif/known_findings.json".into());
        let mut sigs = BTreeSet::new();
        if let Ok(text) = std::fs::read_to_string(&path) {
            if let Ok(v) = serde_json::from_str::<Value>(&text) {
                for e in v["findings"].as_array().cloned().unwrap_or_default() {
                    if e["property"] == prop && e["status"] == "known" {
                        if let Some(s) = e["signature"].as_str() {
                            sigs.insert(s.to_string());
                        }
                    }
                }
            }
        }
        Known { sigs }
    }
    pub fn is_known(&self, sig: &str) -> bool {
        self.sigs.contains(sig)
    }
}

thread_local! {
    /// Known signatures for the running property; props consult it to tolerate known
    /// findings in the middle of a history (see `tolerate`).
    pub static KNOWN: RefCell<BTreeSet<String>> = RefCell::new(BTreeSet::new());
    /// Strict mode (replay of a known finding's case must show the failure).
    pub static STRICT: RefCell<bool> = RefCell::new(false);
}

/// If `f` is a known finding (and not in strict mode) record it and continue; else return it.
pub fn tolerate(obs: &mut Obs, f: Failure) -> Result<(), Failure> {
    let strict = STRICT.with(|s| *s.borrow());
    let known = KNOWN.with(|k| k.borrow().contains(&f.signature)) || explore_all();
    if known && !strict {
        obs.known_hits.push((f.signature, f.message));
        Ok(())
    } else {
        Err(f)
    }
}

/// Exploration aid (never used by registered checks): LCV_TOLERATE_ALL=1 records every failure
/// signature instead of stopping at the first one.
pub fn explore_all() -> bool {
    std::env::var("LCV_TOLERATE_ALL").is_ok()
}

/// Runs one case; a panic escaping the property (a client abort outside an oracle that expects it, or a harness bug)
/// becomes a failure with a normalised signature instead of killing the worker.
pub fn run_case<P: Property>(case: &P::Case, obs: &mut Obs) -> Result<(), Failure> {
    let r = std::panic::catch_unwind(std::panic::AssertUnwindSafe(|| P::run(case, obs)));
    match r {
        Ok(r) => r,
        Err(_) => {
            let (msg, loc) = take_last_panic().unwrap_or_default();
            let file = loc.rsplit('/').next().unwrap_or("").split(':').next().unwrap_or("").to_string();
            let mut norm = String::new();
            let mut last_digit = false;
            for ch in msg.chars().take(100) {
                if ch.is_ascii_digit() {
                    if !last_digit {
                        norm.push('#');
                    }
                    last_digit = true;
                } else {
                    last_digit = false;
                    norm.push(ch);
                }
            }
            Err(Failure::new(format!("panic/{} @{}", norm, file), format!("{} at {}", msg, loc)))
        }
    }
}

pub fn run_worker<P: Property>(tier: Tier, seed: u64, shard: u32, shards: u32, cases_override: Option<u32>) -> Value {
    let t0 = Instant::now();
    let known = Known::load(P::ID);
    KNOWN.with(|k| *k.borrow_mut() = known.sigs.clone());
    let acc = Rc::new(RefCell::new(Acc::default()));
    let failed = Rc::new(RefCell::new(false));

    // 1. regression corpus (shard 0 only)
    if shard == 0 {
        let dir = format!("{}/corpus/{}", verif_dir(), P::ID);
        let mut files: Vec<_> = std::fs::read_dir(&dir)
            .map(|rd| rd.filter_map(|e| e.ok()).map(|e| e.path()).collect())
            .unwrap_or_default();
        files.sort();
        for f in files {
            if f.extension().map(|e| e == "json").unwrap_or(false) {
                let text = std::fs::read_to_string(&f).unwrap();
                let v: Value = serde_json::from_str(&text).unwrap();
                let case_v = if v.get("case").is_some() { v["case"].clone() } else { v.clone() };
                let case: P::Case = match serde_json::from_value(case_v.clone()) {
                    Ok(c) => c,
                    Err(e) => {
                        eprintln!("corpus file {:?} does not parse: {}", f, e);
                        continue;
                    }
                };
                let mut obs = Obs::default();
                obs.label("corpus");
                let r = run_case::<P>(&case, &mut obs);
                let mut a = acc.borrow_mut();
                a.absorb(&case, obs);
                if let Err(fl) = r {
                    if known.is_known(&fl.signature) {
                        a.known_hit(&fl.signature, &fl.message, case_v);
                    } else {
                        let mut fv = json!({"signature": fl.signature, "message": fl.message, "case": case_v});
                        fv["corpus_file"] = json!(f.to_string_lossy());
                        a.failures.push(fv);
                    }
                }
            }
        }
        P::extra(tier, &mut acc.borrow_mut());
    }

    // 2. generated search
    let total = cases_override.unwrap_or_else(|| P::cases(tier));
    let my_cases = total / shards + if shard < total % shards { 1 } else { 0 };
    if my_cases > 0 && acc.borrow().failures.is_empty() {
        let cfg = Config {
            cases: my_cases,
            failure_persistence: None,
            rng_algorithm: RngAlgorithm::ChaCha,
            rng_seed: RngSeed::Fixed(splitmix(seed ^ ((shard as u64) << 32 | 0x5eed))),
            max_shrink_iters: P::max_shrink_iters(),
            ..Config::default()
        };
        let mut runner = TestRunner::new(cfg);
        let acc2 = Rc::clone(&acc);
        let failed2 = Rc::clone(&failed);
        let last_fail: Rc<RefCell<Option<Failure>>> = Rc::new(RefCell::new(None));
        let last_fail2 = Rc::clone(&last_fail);
        let known_sigs = known.sigs.clone();
        let result = runner.run(&P::strategy(tier), move |case| {
            let mut obs = Obs::default();
            let r = run_case::<P>(&case, &mut obs);
            let counting = !*failed2.borrow();
            match r {
                Ok(()) => {
                    if counting {
                        acc2.borrow_mut().absorb(&case, obs);
                    }
                    Ok(())
                }
                Err(f) => {
                    if known_sigs.contains(&f.signature) || explore_all() {
                        // tolerated: the search goes on behind a known finding
                        if counting {
                            let mut a = acc2.borrow_mut();
                            let cv = serde_json::to_value(&case).unwrap_or(Value::Null);
                            a.absorb(&case, obs);
                            a.known_hit(&f.signature, &f.message, cv);
                        }
                        Ok(())
                    } else {
                        if counting {
                            acc2.borrow_mut().absorb(&case, obs);
                        }
                        *failed2.borrow_mut() = true;
                        let msg = format!("{} :: {}", f.signature, f.message);
                        *last_fail2.borrow_mut() = Some(f);
                        Err(TestCaseError::fail(msg))
                    }
                }
            }
        });
        match result {
            Ok(()) => {}
            Err(TestError::Fail(_reason, case)) => {
                // re-run the minimal case to get its own failure (shrinking may end on a different message)
                STRICT.with(|s| *s.borrow_mut() = false);
                let mut obs = Obs::default();
                let f = match run_case::<P>(&case, &mut obs) {
                    Err(f) => f,
                    Ok(()) => last_fail.borrow().clone().unwrap_or(Failure::new("nondeterministic", "minimal case passed on re-run")),
                };
                acc.borrow_mut().fail(&f, serde_json::to_value(&case).unwrap_or(Value::Null));
            }
            Err(TestError::Abort(reason)) => {
                acc.borrow_mut().extra.insert("aborted".into(), json!(reason.to_string()));
            }
        }
    }
    let a = acc.borrow();
    json!({
        "property": P::ID,
        "shard": shard,
        "seed": seed,
        "evaluations": a.evaluations,
        "nontrivial": a.nontrivial.iter().map(|h| format!("{:016x}", h)).collect::<Vec<_>>(),
        "labels": a.labels,
        "samples": a.nontrivial_samples.iter().chain(a.samples.iter()).take(4).cloned().collect::<Vec<_>>(),
        "failures": a.failures,
        "known": a.known.iter().map(|(k, (n, msg, case))| json!({"signature": k, "count": n, "message": msg, "case": case})).collect::<Vec<_>>(),
        "extra": a.extra,
        "exhaustive": a.exhaustive,
        "distinct_extra": a.distinct_extra,
        "rule": P::rule(),
        "wall_s": t0.elapsed().as_secs_f64(),
    })
}

/// Replays one saved case, bypassing proptest. Returns (passed, json).
pub fn replay<P: Property>(path: &str) -> Value {
    let known = Known::load(P::ID);
    KNOWN.with(|k| *k.borrow_mut() = known.sigs.clone());
    STRICT.with(|s| *s.borrow_mut() = true);
    let text = std::fs::read_to_string(path).expect("replay file");
    let v: Value = serde_json::from_str(&text).expect("replay json");
    let case_v = if v.get("case").is_some() { v["case"].clone() } else { v };
    let case: P::Case = serde_json::from_value(case_v.clone()).expect("case shape");
    let mut obs = Obs::default();
    match run_case::<P>(&case, &mut obs) {
        Ok(()) => json!({"property": P::ID, "result": "pass", "labels": obs.labels}),
        Err(f) => json!({"property": P::ID, "result": "fail", "signature": f.signature, "message": f.message,
                          "known": known.is_known(&f.signature), "case": case_v}),
    }
}

pub fn verif_dir() -> String {
    std::env::var("LCV_VERIF").unwrap_or_else(|_| "/verif".into())
}

pub fn splitmix(mut x: u64) -> u64 {
    x = x.wrapping_add(0x9e37_79b9_7f4a_7c15);
    let mut z = x;
    z = (z ^ (z >> 30)).wrapping_mul(0xbf58_476d_1ce4_e5b9);
    z = (z ^ (z >> 27)).wrapping_mul(0x94d0_49bb_1331_11eb);
    z ^ (z >> 31)
}

/// Small deterministic PRNG for bulk content derived from a generated seed (pure function of the case).
#[derive(Clone)]
pub struct Prng(pub u64);
impl Prng {
    pub fn new(seed: u64) -> Self {
        Prng(splitmix(seed ^ 0xa076_1d64_78bd_642f))
    }
    pub fn next(&mut self) -> u64 {
        self.0 = self.0.wrapping_add(0x9e37_79b9_7f4a_7c15);
        let mut z = self.0;
        z = (z ^ (z >> 30)).wrapping_mul(0xbf58_476d_1ce4_e5b9);
        z = (z ^ (z >> 27)).wrapping_mul(0x94d0_49bb_1331_11eb);
        z ^ (z >> 31)
    }
    pub fn below(&mut self, n: u64) -> u64 {
        if n == 0 {
            0
        } else {
            self.next() % n
        }
    }
    pub fn chance(&mut self, num: u64, den: u64) -> bool {
        self.below(den) < num
    }
    pub fn pick<'a, T>(&mut self, xs: &'a [T]) -> &'a T {
        &xs[self.below(xs.len() as u64) as usize]
    }
}

/// Monotone index mapping (shrinks well): maps a u16 onto 0..len.
pub fn idx(i: u16, len: usize) -> usize {
    if len == 0 {
        0
    } else {
        ((i as usize) * len) >> 16
    }
}

/// Install a panic hook that stays quiet (panics are part of several oracles) but records the
/// last panic message + location for signatures.
thread_local! {
    pub static LAST_PANIC: RefCell<Option<(String, String)>> = RefCell::new(None);
}

pub fn install_quiet_panic_hook() {
    std::panic::set_hook(Box::new(|info| {
        let msg = if let Some(s) = info.payload().downcast_ref::<&str>() {
            s.to_string()
        } else if let Some(s) = info.payload().downcast_ref::<String>() {
            s.clone()
        } else {
            "<non-string panic>".to_string()
        };
        let loc = info.location().map(|l| format!("{}:{}", l.file(), l.line())).unwrap_or_default();
        if std::env::var("LCV_SHOW_PANICS").is_ok() {
            eprintln!("[panic] {} at {}", msg, loc);
        }
        if std::env::var("LCV_BACKTRACE").is_ok() {
            let bt = format!("{}", std::backtrace::Backtrace::force_capture());
            let lines: Vec<&str> = bt.lines().filter(|l| l.contains("/repo/src") || l.contains("lcv::")).take(14).collect();
            eprintln!("[backtrace] {} at {}\n{}", msg, loc, lines.join("\n"));
        }
        LAST_PANIC.with(|p| *p.borrow_mut() = Some((msg, loc)));
    }));
}

pub fn take_last_panic() -> Option<(String, String)> {
    LAST_PANIC.with(|p| p.borrow_mut().take())
}

// ------------------------------------------------------------------------------------------------
// Coverage-guided engine: the bytes libFuzzer hands to the target are the *entropy* of the property's
// own proptest strategy (RngAlgorithm::PassThrough), so every generator and oracle of this harness is
// also a structure-aware fuzz target: a mutation of the byte string is a mutation of the generated case,
// and libFuzzer keeps the inputs which reach new code of the client (sancov counters over /repo/src).
// ------------------------------------------------------------------------------------------------

pub struct FuzzState {
    pub acc: Acc,
    pub known: BTreeSet<String>,
    pub out_dir: String,
    pub execs: u64,
    pub rejected: u64,
    pub t0: Instant,
    pub failures_written: u64,
}

/// Process-global (not thread-local: it is read by an atexit handler after the thread-locals are gone).
pub static FUZZ: std::sync::Mutex<Option<FuzzState>> = std::sync::Mutex::new(None);

fn with_fuzz<R>(f: impl FnOnce(&mut Option<FuzzState>) -> R) -> R {
    let mut g = FUZZ.lock().unwrap_or_else(|e| e.into_inner());
    f(&mut g)
}

fn fuzz_stats_path(out_dir: &str, prop: &str) -> String {
    format!("{}/stats-{}-{}.json", out_dir, prop, std::process::id())
}

pub fn fuzz_flush<P: Property>() {
    with_fuzz(|f| {
        if let Some(st) = f.as_ref() {
            let a = &st.acc;
            let v = json!({
                "property": P::ID,
                "evaluations": a.evaluations,
                "execs": st.execs,
                "rejected_by_generator": st.rejected,
                "nontrivial": a.nontrivial.iter().map(|h| format!("{:016x}", h)).collect::<Vec<_>>(),
                "labels": a.labels,
                "samples": a.nontrivial_samples.iter().chain(a.samples.iter()).take(3).cloned().collect::<Vec<_>>(),
                "known": a.known.iter().map(|(k, (n, msg, case))| json!({"signature": k, "count": n, "message": msg, "case": case})).collect::<Vec<_>>(),
                "failures_written": st.failures_written,
                "wall_s": st.t0.elapsed().as_secs_f64(),
            });
            let p = fuzz_stats_path(&st.out_dir, P::ID);
            let tmp = format!("{}.tmp", p);
            if std::fs::write(&tmp, serde_json::to_string(&v).unwrap()).is_ok() {
                let _ = std::fs::rename(&tmp, &p);
            }
        }
    });
}

/// One libFuzzer iteration. Returns normally for passing / known / rejected inputs; on an unknown violation it
/// shrinks the case with proptest's own value tree, writes `<out>/fail-<prop>-<hash>.json` (a replay file) and
/// aborts, so that libFuzzer keeps the input as a crash artifact and stops this job.
pub fn fuzz_one<P: Property>(tier: Tier, data: &[u8]) {
    use proptest::strategy::ValueTree;
    use proptest::test_runner::TestRng;
    with_fuzz(|f| {
        if f.is_none() {
            let known = Known::load(P::ID);
            KNOWN.with(|k| *k.borrow_mut() = known.sigs.clone());
            let out_dir = std::env::var("LCV_FUZZ_OUT").unwrap_or_else(|_| "/tmp".into());
            let _ = std::fs::create_dir_all(&out_dir);
            *f = Some(FuzzState { acc: Acc::default(), known: known.sigs, out_dir, execs: 0, rejected: 0, t0: Instant::now(), failures_written: 0 });
        }
    });
    let cfg = Config { failure_persistence: None, ..Config::default() };
    // The pass-through RNG yields zeros once the input is used up, and rand's rejection sampling never terminates on
    // all-zero entropy: extend the input with a pseudo-random tail which is a pure function of the input.
    const TAIL: usize = 256 * 1024;
    let mut buf: Vec<u8> = Vec::with_capacity(data.len() + TAIL);
    buf.extend_from_slice(data);
    let mut x: u64 = 0xcbf2_9ce4_8422_2325;
    for b in data {
        x = (x ^ *b as u64).wrapping_mul(0x0000_0100_0000_01b3);
    }
    for _ in 0..TAIL / 8 {
        x = splitmix(x);
        buf.extend_from_slice(&x.to_le_bytes());
    }
    if std::env::var("LCV_FUZZ_DEBUG").is_ok() {
        use proptest::prelude::RngCore;
        let mut r = TestRng::from_seed(RngAlgorithm::PassThrough, &buf);
        let v: Vec<u32> = (0..40).map(|_| r.next_u32()).collect();
        eprintln!("buf {} bytes; first words {:x?}", buf.len(), v);
    }
    let rng = TestRng::from_seed(RngAlgorithm::PassThrough, &buf);
    let mut runner = TestRunner::new_with_rng(cfg, rng);
    let strategy = P::strategy(tier);
    let mut tree = match strategy.new_tree(&mut runner) {
        Ok(t) => t,
        Err(_) => {
            with_fuzz(|f| {
                if let Some(st) = f.as_mut() {
                    st.execs += 1;
                    st.rejected += 1;
                }
            });
            return;
        }
    };
    let case = tree.current();
    let mut obs = Obs::default();
    let r = run_case::<P>(&case, &mut obs);
    let mut fatal: Option<Failure> = None;
    with_fuzz(|f| {
        let st = f.as_mut().unwrap();
        st.execs += 1;
        match r {
            Ok(()) => st.acc.absorb(&case, obs),
            Err(fl) => {
                let cv = serde_json::to_value(&case).unwrap_or(Value::Null);
                st.acc.absorb(&case, obs);
                if st.known.contains(&fl.signature) || explore_all() {
                    st.acc.known_hit(&fl.signature, &fl.message, cv);
                } else {
                    fatal = Some(fl);
                }
            }
        }
    });
    let execs = with_fuzz(|f| f.as_ref().map(|s| s.execs).unwrap_or(0));
    if fatal.is_none() {
        if execs % 64 == 0 {
            fuzz_flush::<P>();
        }
        return;
    }
    // shrink with the value tree (same signature class: any unknown failure keeps the simplification)
    let mut best = (case.clone(), fatal.clone().unwrap());
    let mut last_failed = true;
    for _ in 0..P::max_shrink_iters() {
        let moved = if last_failed { tree.simplify() } else { tree.complicate() };
        if !moved {
            break;
        }
        let c = tree.current();
        let mut o = Obs::default();
        match run_case::<P>(&c, &mut o) {
            Err(fl) if !with_fuzz(|f| f.as_ref().unwrap().known.contains(&fl.signature)) => {
                best = (c, fl);
                last_failed = true;
            }
            _ => last_failed = false,
        }
    }
    let (bc, bf) = best;
    let cv = serde_json::to_value(&bc).unwrap_or(Value::Null);
    let mut h = std::collections::hash_map::DefaultHasher::new();
    serde_json::to_string(&cv).unwrap_or_default().hash(&mut h);
    let out_dir = with_fuzz(|f| f.as_ref().unwrap().out_dir.clone());
    let path = format!("{}/fail-{}-{:016x}.json", out_dir, P::ID, h.finish());
    let _ = std::fs::write(&path, serde_json::to_string_pretty(&json!({"property": P::ID, "signature": bf.signature, "message": bf.message, "case": cv, "found_by": "coverage-guided engine (libFuzzer over proptest PassThrough entropy)"})).unwrap());
    with_fuzz(|f| {
        if let Some(st) = f.as_mut() {
            st.failures_written += 1;
        }
    });
    fuzz_flush::<P>();
    eprintln!("LCVFUZZ-FAILURE property={} signature={} replay={}", P::ID, bf.signature, path);
    std::process::abort();
}
