//! Reference index: computed from the simulator's own chain, independent of any client code.
//! Comparison rule (DESIGN.md §4.4 / S1): everything in range must be returned; everything
//! returned that is in range must be exact; entries about cells created at or before a script's
//! start number are don't-care (but must still be real facts of the chain when they are outputs
//! of in-range blocks).

use std::collections::{BTreeMap, BTreeSet, HashMap};

use ckb_jsonrpc_types::JsonBytes;
use ckb_types::{
    bytes::Bytes,
    packed::{self, OutPoint, Script},
    prelude::*,
};
use serde_json::Value;

use crate::lcv::sim::chain::Chain;
use crate::lcv::sim::world::World;
use crate::service::{BlockFilterRpc, Order, ScriptType as RpcScriptType, SearchKey};

#[derive(Clone, Debug, PartialEq, Eq, Hash)]
pub enum SType {
    Lock,
    Type,
}

#[derive(Clone, Debug)]
pub struct Reg {
    pub script: Script,
    pub stype: SType,
    pub start: u64,
}

impl Reg {
    pub fn in_range(&self, block: u64) -> bool {
        block > self.start || (self.start == 0 && block == 0)
    }
    pub fn matches(&self, out: &packed::CellOutput) -> bool {
        match self.stype {
            SType::Lock => out.lock() == self.script,
            SType::Type => out.type_().to_opt().map(|t| t == self.script).unwrap_or(false),
        }
    }
    pub fn rpc_type(&self) -> RpcScriptType {
        match self.stype {
            SType::Lock => RpcScriptType::Lock,
            SType::Type => RpcScriptType::Type,
        }
    }
    pub fn storage_status(&self) -> crate::storage::ScriptStatus {
        crate::storage::ScriptStatus {
            script: self.script.clone(),
            script_type: match self.stype {
                SType::Lock => crate::storage::ScriptType::Lock,
                SType::Type => crate::storage::ScriptType::Type,
            },
            block_number: self.start,
        }
    }
    pub fn rpc_status(&self) -> crate::service::ScriptStatus {
        crate::service::ScriptStatus { script: self.script.clone().into(), script_type: self.rpc_type(), block_number: self.start.into() }
    }
}

#[derive(Clone, Debug, PartialEq, Eq, PartialOrd, Ord)]
pub struct HistEntry {
    pub block: u64,
    pub tx_index: u32,
    pub io_index: u32,
    pub is_input: bool,
    pub tx_hash: String,
}

#[derive(Clone, Debug)]
pub struct RefCellEntry {
    pub out_point: OutPoint,
    pub block: u64,
    pub tx_index: u32,
    pub capacity: u64,
    pub data: Bytes,
}

pub struct RefIndex {
    /// live cells whose creation is in range
    pub live: Vec<RefCellEntry>,
    /// all history entries that are real facts of the chain up to `upto` for this script
    pub all_history: BTreeSet<HistEntry>,
    /// the subset that must be returned
    pub must_history: BTreeSet<HistEntry>,
}

pub fn reference(chain: &Chain, upto: u64, reg: &Reg) -> RefIndex {
    let mut live = vec![];
    let mut all_history = BTreeSet::new();
    let mut must_history = BTreeSet::new();
    for n in 0..=upto.min(chain.tip()) {
        let block = &chain.blocks[n as usize];
        for (ti, tx) in block.transactions().into_iter().enumerate() {
            let txh = format!("{:#x}", tx.hash());
            if ti > 0 {
                for (ii, op) in tx.input_pts_iter().enumerate() {
                    if let Some(ci) = chain.cells.get(&op) {
                        if reg.matches(&ci.output) {
                            let e = HistEntry { block: n, tx_index: ti as u32, io_index: ii as u32, is_input: true, tx_hash: txh.clone() };
                            if reg.in_range(n) && reg.in_range(ci.block) {
                                must_history.insert(e.clone());
                            }
                            all_history.insert(e);
                        }
                    }
                }
            }
            for (oi, (out, data)) in tx.outputs_with_data_iter().enumerate() {
                if reg.matches(&out) {
                    let e = HistEntry { block: n, tx_index: ti as u32, io_index: oi as u32, is_input: false, tx_hash: txh.clone() };
                    if reg.in_range(n) {
                        must_history.insert(e.clone());
                        let op = OutPoint::new(tx.hash(), oi as u32);
                        let spent = chain.cells[&op].spent_at.map(|(b, _, _)| b <= upto).unwrap_or(false);
                        if !spent {
                            let cap: ckb_types::core::Capacity = out.capacity().unpack();
                            live.push(RefCellEntry { out_point: op, block: n, tx_index: ti as u32, capacity: cap.as_u64(), data });
                        }
                    }
                    all_history.insert(e);
                }
            }
        }
    }
    RefIndex { live, all_history, must_history }
}

fn search_key(reg: &Reg) -> SearchKey {
    SearchKey { script: reg.script.clone().into(), script_type: reg.rpc_type(), filter: None, with_data: Some(true), group_by_transaction: None }
}

/// All pages of get_cells for the script (prefix search), as JSON values.
pub fn all_cells(w: &World, reg: &Reg, limit: u32) -> Result<Vec<Value>, String> {
    let rpc = w.filter_rpc();
    let mut out = vec![];
    let mut cursor: Option<JsonBytes> = None;
    for _ in 0..100_000 {
        let page = rpc.get_cells(search_key(reg), Order::Asc, limit.into(), cursor.clone()).map_err(|e| format!("get_cells error: {:?}", e))?;
        if page.objects.is_empty() {
            break;
        }
        for c in page.objects {
            out.push(serde_json::to_value(&c).unwrap());
        }
        cursor = Some(page.last_cursor);
    }
    Ok(out)
}

pub fn all_txs(w: &World, reg: &Reg, limit: u32) -> Result<Vec<Value>, String> {
    let rpc = w.filter_rpc();
    let mut out = vec![];
    let mut cursor: Option<JsonBytes> = None;
    for _ in 0..100_000 {
        let page = rpc.get_transactions(search_key(reg), Order::Asc, limit.into(), cursor.clone()).map_err(|e| format!("get_transactions error: {:?}", e))?;
        if page.objects.is_empty() {
            break;
        }
        for c in page.objects {
            out.push(serde_json::to_value(&c).unwrap());
        }
        cursor = Some(page.last_cursor);
    }
    Ok(out)
}

fn hex_u64(v: &Value) -> u64 {
    v.as_str().and_then(|s| u64::from_str_radix(s.trim_start_matches("0x"), 16).ok()).unwrap_or(u64::MAX)
}

fn json_script(s: &Script) -> Value {
    let js: ckb_jsonrpc_types::Script = s.clone().into();
    serde_json::to_value(js).unwrap()
}

/// A mismatch between the client's answers and the reference index.
#[derive(Debug, Clone)]
pub struct Mismatch {
    pub kind: &'static str,
    pub detail: String,
}

/// Compares get_cells / get_transactions / get_cells_capacity for one registration with the
/// reference index of `chain` at height `upto`.
pub fn compare(w: &World, chain: &Chain, upto: u64, reg: &Reg) -> Result<(), Mismatch> {
    let r = reference(chain, upto, reg);
    let want_script = json_script(&reg.script);
    let cells = all_cells(w, reg, 50).map_err(|e| Mismatch { kind: "rpc-error", detail: e })?;
    // exact-script subset (the RPC search is a prefix search)
    let mine: Vec<&Value> = cells
        .iter()
        .filter(|c| match reg.stype {
            SType::Lock => c["output"]["lock"] == want_script,
            SType::Type => c["output"]["type"] == want_script,
        })
        .collect();
    let mut got: HashMap<String, &Value> = HashMap::new();
    for c in &mine {
        let key = format!("{}:{}", c["out_point"]["tx_hash"].as_str().unwrap_or(""), hex_u64(&c["out_point"]["index"]));
        if let Some(prev) = got.insert(key.clone(), c) {
            // D26: one of the two records was put there by a rollback (restore of a spent cell) with a creation block that
            // is not after the script's start; indexing never writes such a record
            let (b1, b2) = (hex_u64(&prev["block_number"]), hex_u64(&c["block_number"]));
            let kind = if reg.start > 0 && (b1 <= reg.start || b2 <= reg.start) && b1 != b2 { "cell-returned-twice/stale-creation-block-before-script-start" } else { "cell-returned-twice" };
            return Err(Mismatch { kind, detail: format!("{} recorded in blocks {} and {} (script start {})", key, b1, b2, reg.start) });
        }
    }
    // completeness
    for l in &r.live {
        let key = format!("{:#x}:{}", l.out_point.tx_hash(), Unpack::<u32>::unpack(&l.out_point.index()));
        match got.get(&key) {
            None => {
                return Err(Mismatch { kind: "missing-live-cell", detail: format!("{} created in block {} (script start {}, height {})", key, l.block, reg.start, upto) });
            }
            Some(c) => {
                let ok = hex_u64(&c["block_number"]) == l.block
                    && hex_u64(&c["tx_index"]) == l.tx_index as u64
                    && hex_u64(&c["output"]["capacity"]) == l.capacity
                    && c["output_data"].as_str().map(|s| s == format!("0x{}", hex(&l.data))).unwrap_or(false);
                if !ok {
                    return Err(Mismatch { kind: "live-cell-wrong-fields", detail: format!("{} got {} want block={} tx_index={} cap={:#x}", key, c, l.block, l.tx_index, l.capacity) });
                }
            }
        }
    }
    // exactness
    for (key, c) in &got {
        let mut parts = key.split(':');
        let txh = parts.next().unwrap();
        let idx: u32 = parts.next().unwrap().parse().unwrap();
        let op = chain.cells.iter().find(|(op, _)| format!("{:#x}", op.tx_hash()) == txh && Unpack::<u32>::unpack(&op.index()) == idx);
        match op {
            None => {
                // D26: a cell whose recorded creation block is not after the script's start can only have been put there by a
                // rollback (restore of a spent cell), not by indexing
                let kind = if hex_u64(&c["block_number"]) <= reg.start && reg.start > 0 { "phantom-cell-not-on-chain/creation-block-before-script-start" } else { "phantom-cell-not-on-chain" };
                return Err(Mismatch { kind, detail: format!("{} {}", key, c) });
            }
            Some((_, ci)) => {
                if ci.block > upto {
                    return Err(Mismatch { kind: "cell-from-the-future", detail: format!("{} created in {} > {}", key, ci.block, upto) });
                }
                if reg.in_range(ci.block) {
                    if let Some((b, _, _)) = ci.spent_at {
                        if b <= upto {
                            let kind = if hex_u64(&c["block_number"]) <= reg.start && hex_u64(&c["block_number"]) != ci.block && reg.start > 0 {
                                "spent-cell-returned/stale-creation-block-before-script-start"
                            } else {
                                "spent-cell-returned"
                            };
                            return Err(Mismatch { kind, detail: format!("{} created in {} (tx_index {}) spent in {} (script start {}, height {}); returned as block {} tx_index {}", key, ci.block, ci.tx_index, b, reg.start, upto, c["block_number"], c["tx_index"]) });
                        }
                    }
                }
            }
        }
    }
    // history
    let txs = all_txs(w, reg, 50).map_err(|e| Mismatch { kind: "rpc-error", detail: e })?;
    let mut got_hist: BTreeSet<HistEntry> = BTreeSet::new();
    let mut prefix_hist: BTreeMap<HistEntry, &Value> = BTreeMap::new();
    for t in &txs {
        let e = HistEntry {
            block: hex_u64(&t["block_number"]),
            tx_index: hex_u64(&t["tx_index"]) as u32,
            io_index: hex_u64(&t["io_index"]) as u32,
            is_input: t["io_type"] == "input",
            tx_hash: t["transaction"]["hash"].as_str().unwrap_or("").to_string(),
        };
        prefix_hist.insert(e.clone(), t);
        got_hist.insert(e);
    }
    for e in &r.must_history {
        if !got_hist.contains(e) {
            return Err(Mismatch { kind: "missing-history-entry", detail: format!("{:?} (script start {}, height {})", e, reg.start, upto) });
        }
    }
    // exactness of history is judged on the exact script only when no other universe script shares the prefix;
    // prefix-sharing results are filtered by recomputing which script an entry belongs to.
    for e in &got_hist {
        if r.all_history.contains(e) {
            continue;
        }
        // the entry may belong to another script sharing the search prefix: it must then be a real fact for *some* script with that prefix
        if !entry_is_real_for_prefix(chain, upto, reg, e) {
            // scoping S1: the records of a script that is not registered (any more) are not maintained, neither
            // by new blocks nor by a rollback; a prefix search returns them as they were left
            if let Some(owner) = owner_script(w, reg, prefix_hist[e]) {
                let registered = w.storage().get_filter_scripts().into_iter().any(|ss| ss.script == owner && matches!(ss.script_type, crate::storage::ScriptType::Type) == (reg.stype == SType::Type));
                if owner != reg.script && !registered {
                    continue;
                }
            }
            return Err(Mismatch { kind: "history-entry-not-on-chain", detail: format!("{:?} (height {})", e, upto) });
        }
    }
    // capacity = sum over all pages of the same key, tip = stored tip
    let cap = w.filter_rpc().get_cells_capacity(search_key(reg)).map_err(|e| Mismatch { kind: "rpc-error", detail: format!("{:?}", e) })?;
    let sum: u64 = cells.iter().map(|c| hex_u64(&c["output"]["capacity"])).sum();
    let cap_v = serde_json::to_value(&cap).unwrap();
    if hex_u64(&cap_v["capacity"]) != sum {
        return Err(Mismatch { kind: "capacity-differs-from-cells", detail: format!("capacity {} sum {:#x}", cap_v["capacity"], sum) });
    }
    let tip = w.storage().get_tip_header();
    if cap_v["block_hash"].as_str().map(|s| s.to_string()) != Some(format!("{:#x}", tip.calc_header_hash())) {
        return Err(Mismatch { kind: "capacity-tip-differs", detail: format!("{}", cap_v) });
    }
    Ok(())
}

/// The exact script a returned history entry belongs to, derived from the returned transaction (outputs) or,
/// for inputs, from the previous output on any chain of the world.
fn owner_script(w: &World, reg: &Reg, t: &Value) -> Option<Script> {
    let io = hex_u64(&t["io_index"]) as usize;
    let tx: ckb_jsonrpc_types::TransactionView = serde_json::from_value(t["transaction"].clone()).ok()?;
    let tx: packed::Transaction = tx.inner.into();
    let out = if t["io_type"] == "input" {
        let op = tx.raw().inputs().get(io)?.previous_output();
        w.chains.iter().find_map(|c| c.cells.get(&op).map(|ci| ci.output.clone()))?
    } else {
        tx.raw().outputs().get(io)?
    };
    match reg.stype {
        SType::Lock => Some(out.lock()),
        SType::Type => out.type_().to_opt(),
    }
}

fn entry_is_real_for_prefix(chain: &Chain, upto: u64, reg: &Reg, e: &HistEntry) -> bool {
    if e.block > upto || e.block > chain.tip() {
        return false;
    }
    let block = &chain.blocks[e.block as usize];
    let tx = match block.transactions().get(e.tx_index as usize) {
        Some(t) => t.clone(),
        None => return false,
    };
    if format!("{:#x}", tx.hash()) != e.tx_hash {
        return false;
    }
    let out = if e.is_input {
        match tx.inputs().get(e.io_index as usize).and_then(|i| chain.cells.get(&i.previous_output())) {
            Some(ci) => ci.output.clone(),
            None => return false,
        }
    } else {
        match tx.outputs().get(e.io_index as usize) {
            Some(o) => o,
            None => return false,
        }
    };
    let s = match reg.stype {
        SType::Lock => Some(out.lock()),
        SType::Type => out.type_().to_opt(),
    };
    match s {
        Some(s) => raw_script(&s).starts_with(&raw_script(&reg.script)),
        None => false,
    }
}

/// code_hash | hash_type | args (the documented prefix-search key), re-derived here so that the oracle
/// does not call client code.
pub fn raw_script(s: &Script) -> Vec<u8> {
    let mut v = s.code_hash().as_slice().to_vec();
    v.extend_from_slice(s.hash_type().as_slice());
    v.extend_from_slice(&s.args().raw_data());
    v
}

pub fn hex(b: &[u8]) -> String {
    b.iter().map(|x| format!("{:02x}", x)).collect()
}
