pub mod index;
