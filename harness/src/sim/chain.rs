//! Synthetic chain built directly with ckb-types builders: real headers (parent hash, epoch,
//! compact target, mined Eaglesong nonce, extension committing to the parent chain root),
//! generated UTXO graph over a prefix-sharing script universe, block filters and the MMR.
//! The chain is the simulator's ground truth; nothing here calls client code.

use std::collections::HashMap;

use ckb_chain_spec::consensus::{Consensus, ConsensusBuilder};
use ckb_merkle_mountain_range::{leaf_index_to_mmr_size, leaf_index_to_pos, util::MemStore};
use ckb_pow::Pow;
use ckb_types::{
    bytes::Bytes,
    core::{BlockBuilder, BlockView, Capacity, EpochNumberWithFraction, HeaderView, ScriptHashType, TransactionBuilder, TransactionView},
    packed::{self, Byte32, CellInput, CellOutput, OutPoint, Script},
    prelude::*,
    utilities::{build_filter_data, calc_filter_hash, compact_to_difficulty, difficulty_to_compact, merkle_mountain_range::ChainRootMMR, FilterDataProvider},
    U256,
};

use crate::lcv::pbt::Prng;

pub fn always_success_bin() -> &'static [u8] {
    crate::REPO_ALWAYS_SUCCESS
}

pub fn as_code_hash() -> Byte32 {
    CellOutput::calc_data_hash(always_success_bin())
}

/// Script universe: deliberately sharing code hash and args prefixes.
pub fn universe_lock(i: usize) -> Script {
    let (ht, args): (ScriptHashType, Vec<u8>) = match i % 6 {
        0 => (ScriptHashType::Data, vec![0xaa]),
        1 => (ScriptHashType::Data, vec![0xaa, 0x01]),
        2 => (ScriptHashType::Data, vec![0xaa, 0x01, 0x02]),
        3 => (ScriptHashType::Data, vec![]),
        4 => (ScriptHashType::Type, vec![0xaa]),
        // 0xff-heavy args: descending searches start from `prefix | 0xff..`, so long runs of 0xff matter
        _ => (ScriptHashType::Data, vec![0xff; 12]),
    };
    Script::new_builder().hash_type(ht.into()).code_hash(as_code_hash()).args(Bytes::from(args).pack()).build()
}

pub fn universe_type(i: usize) -> Script {
    let args: Vec<u8> = match i % 2 {
        0 => vec![0x77],
        _ => vec![0x77, 0x01],
    };
    Script::new_builder().hash_type(ScriptHashType::Data.into()).code_hash(as_code_hash()).args(Bytes::from(args).pack()).build()
}

/// A hand-assembled RISC-V script (sim/witness_gate.bin, 18 instructions): loads the first 8 bytes of witness 0
/// (source: input) and exits with its first byte; a missing witness exits with 1. So a transaction spending a cell
/// locked by it verifies iff witnesses[0] is empty or starts with 0 — the only script here whose verdict depends on
/// the witnesses.
pub fn witness_gate_bin() -> &'static [u8] {
    include_bytes!("witness_gate.bin")
}

pub fn gate_code_hash() -> Byte32 {
    CellOutput::calc_data_hash(witness_gate_bin())
}

pub fn gate_lock() -> Script {
    Script::new_builder().hash_type(ScriptHashType::Data.into()).code_hash(gate_code_hash()).args(Bytes::from(vec![0x9au8]).pack()).build()
}

pub const N_LOCKS: usize = 6;
pub const N_TYPES: usize = 2;

/// A lock that is never registered (miner / change).
pub fn miner_lock() -> Script {
    Script::new_builder().hash_type(ScriptHashType::Data.into()).code_hash(as_code_hash()).args(Bytes::from(vec![0xbb, 0xbb]).pack()).build()
}

#[derive(Clone, Debug)]
pub struct CellInfo {
    pub output: CellOutput,
    pub data: Bytes,
    pub block: u64,
    pub tx_index: u32,
    pub spent_at: Option<(u64, u32, u32)>, // (block, tx_index, input_index)
}

/// Transaction-generation knobs.
#[derive(Clone, Debug)]
pub struct TxGen {
    /// probability (percent) that a block carries non-cellbase transactions
    pub density: u64,
    pub max_txs: u64,
    /// percent of outputs that get a type script
    pub typed: u64,
    /// percent chance to spend an output created earlier in the same block
    pub same_block: u64,
    /// cellbase lock from the universe (true) or the miner lock
    pub cellbase_universe: bool,
    /// C18 only: the genesis block carries the witness-gate script and cells locked by it, and generated outputs
    /// use that lock now and then
    pub gate: bool,
}

impl Default for TxGen {
    fn default() -> Self {
        TxGen { density: 60, max_txs: 3, typed: 20, same_block: 25, cellbase_universe: false, gate: false }
    }
}

pub struct Chain {
    pub consensus: Consensus,
    pub pow: Pow,
    pub blocks: Vec<BlockView>,
    pub total_diff: Vec<U256>,
    pub store: MemStore<packed::HeaderDigest>,
    pub filters: Vec<packed::Bytes>,
    pub filter_hashes: Vec<Byte32>,
    pub cells: HashMap<OutPoint, CellInfo>,
    /// live out points in creation order (kept as a vec for deterministic picking)
    pub live: Vec<OutPoint>,
    /// (length, compact_target) per epoch; the last entry repeats forever
    pub epochs: Vec<(u64, u32)>,
    pub now: u64,
    pub rng: Prng,
    pub txgen: TxGen,
    pub mined_hashes: u64,
    /// transactions of orphaned blocks waiting to be committed again on this branch (a real reorg
    /// re-includes them, usually at another height / position)
    pub mempool: Vec<TransactionView>,
    /// build blocks whose nonce is deliberately NOT a PoW solution (forged branch without work)
    pub skip_pow: bool,
    /// blocks whose epoch is not AFTER `mmr_activated_epoch (0/1)` carry no extension (no chain root commitment): the chain
    /// before the activation of the MMR and the first block of the activation epoch (its parent is not covered yet)
    pub mmr_activated_epoch: u64,
    /// (number, index, length) claimed by the NEXT block instead of its real epoch (a hostile chain tip, C10); consumed once
    pub epoch_override: Option<(u64, u64, u64)>,
}

struct Provider<'a>(&'a HashMap<OutPoint, CellInfo>);
impl<'a> FilterDataProvider for Provider<'a> {
    fn cell(&self, out_point: &OutPoint) -> Option<CellOutput> {
        self.0.get(out_point).map(|c| c.output.clone())
    }
}

/// Mining with a bound: a mutated compact target can be practically unreachable; after `max_tries` the header is
/// returned as it is (not a PoW solution).
pub fn mine_header_bounded(pow: &Pow, header: HeaderView, start_nonce: u128, max_tries: u64) -> (HeaderView, u64) {
    let engine = pow.engine();
    let mut nonce = start_nonce;
    let mut tries = 0u64;
    let mut h = header;
    while tries < max_tries {
        h = h.as_advanced_builder().nonce(nonce.pack()).build();
        tries += 1;
        if engine.verify(&h.data()) {
            break;
        }
        nonce = nonce.wrapping_add(1);
    }
    (h, tries)
}

pub fn mine_header(pow: &Pow, header: HeaderView, start_nonce: u128) -> (HeaderView, u64) {
    let engine = pow.engine();
    let mut nonce = start_nonce;
    let mut tries = 0u64;
    let mut h = header;
    loop {
        h = h.as_advanced_builder().nonce(nonce.pack()).build();
        tries += 1;
        if engine.verify(&h.data()) {
            return (h, tries);
        }
        nonce = nonce.wrapping_add(1);
    }
}

impl Chain {
    pub fn new(epochs: Vec<(u64, u32)>, now: u64, seed: u64, pow: Pow, txgen: TxGen) -> Self {
        let (_len0, ct0) = epochs[0];
        let mut cb = TransactionBuilder::default()
            .input(CellInput::new_cellbase_input(0))
            .witness(Script::default().into_witness())
            .output(CellOutput::new_builder().capacity(Capacity::shannons(1_000_000_0000_0000).pack()).lock(universe_lock(3)).build())
            .output_data(Bytes::from(always_success_bin().to_vec()).pack());
        for i in 0..10usize {
            cb = cb
                .output(CellOutput::new_builder().capacity(Capacity::shannons(100_000_0000_0000).pack()).lock(universe_lock(i)).build())
                .output_data(Bytes::new().pack());
        }
        if txgen.gate {
            cb = cb
                .output(CellOutput::new_builder().capacity(Capacity::shannons(1_000_000_0000_0000).pack()).lock(universe_lock(3)).build())
                .output_data(Bytes::from(witness_gate_bin().to_vec()).pack());
            for _ in 0..6usize {
                cb = cb.output(CellOutput::new_builder().capacity(Capacity::shannons(100_000_0000_0000).pack()).lock(gate_lock()).build()).output_data(Bytes::new().pack());
            }
        }
        let genesis = BlockBuilder::default()
            .compact_target(ct0.pack())
            // the header of a real genesis block carries the epoch 0(0/0)
            .epoch(EpochNumberWithFraction::new_unchecked(0, 0, 0).pack())
            .timestamp((now - 2_000_000).pack())
            .transaction(cb.build())
            .build();
        let (gh, tries) = mine_header(&pow, genesis.header(), 0);
        let genesis = genesis.as_advanced_builder().header(gh).build_unchecked();
        let consensus = ConsensusBuilder::default().genesis_block(genesis.clone()).pow(pow.clone()).build();
        let mut chain = Chain {
            consensus,
            pow,
            blocks: vec![],
            total_diff: vec![],
            store: MemStore::default(),
            filters: vec![],
            filter_hashes: vec![],
            cells: HashMap::new(),
            live: vec![],
            epochs,
            now,
            rng: Prng::new(seed),
            txgen,
            mined_hashes: tries,
            mempool: vec![],
            skip_pow: false,
            mmr_activated_epoch: 0,
            epoch_override: None,
        };
        chain.append(genesis);
        chain
    }

    /// Unmined genesis variant (every real network): used by labelled configurations only.
    pub fn unmine_genesis_for_test(&mut self) {}

    pub fn append(&mut self, block: BlockView) {
        let n = block.number();
        assert_eq!(n as usize, self.blocks.len());
        for (ti, tx) in block.transactions().into_iter().enumerate() {
            if ti > 0 {
                for (ii, op) in tx.input_pts_iter().enumerate() {
                    if let Some(c) = self.cells.get_mut(&op) {
                        c.spent_at = Some((n, ti as u32, ii as u32));
                    }
                    self.live.retain(|o| o != &op);
                }
            }
            for (i, (out, data)) in tx.outputs_with_data_iter().enumerate() {
                let op = OutPoint::new(tx.hash(), i as u32);
                self.cells.insert(op.clone(), CellInfo { output: out, data, block: n, tx_index: ti as u32, spent_at: None });
                if !(n == 0 && i == 0) {
                    self.live.push(op);
                }
            }
        }
        let (fdata, missing) = build_filter_data(Provider(&self.cells), &block.transactions());
        assert!(missing.is_empty());
        let fdata = fdata.pack();
        let parent = self.filter_hashes.last().cloned().unwrap_or_else(Byte32::zero);
        let fhash: Byte32 = calc_filter_hash(&parent, &fdata).pack();
        self.filters.push(fdata);
        self.filter_hashes.push(fhash);
        let td = self.total_diff.last().cloned().unwrap_or_else(U256::zero) + block.difficulty();
        self.total_diff.push(td);
        {
            let size = if n == 0 { 0 } else { leaf_index_to_mmr_size(n - 1) };
            let mut mmr = ChainRootMMR::new(size, &self.store);
            // A hostile tip with a malformed epoch (C10) cannot be merged with its neighbours; as a tip it is never a leaf
            // under a chain root, so it is simply left out (nothing is mined on top of it).
            if mmr.push(block.digest()).is_ok() {
                mmr.commit().unwrap();
            }
        }
        self.blocks.push(block);
    }

    pub fn tip(&self) -> u64 {
        self.blocks.len() as u64 - 1
    }

    pub fn chain_root(&self, upto: u64) -> packed::HeaderDigest {
        ChainRootMMR::new(leaf_index_to_mmr_size(upto), &self.store).get_root().unwrap()
    }

    pub fn epoch_of(&self, n: u64) -> (EpochNumberWithFraction, u32) {
        let mut start = 0u64;
        for (i, (len, ct)) in self.epochs.iter().enumerate() {
            if n < start + len {
                return (EpochNumberWithFraction::new(i as u64, n - start, *len), *ct);
            }
            start += len;
        }
        let (len, ct) = *self.epochs.last().unwrap();
        let i = self.epochs.len() as u64 - 1;
        let k = (n - start) / len;
        (EpochNumberWithFraction::new(i + 1 + k, (n - start) % len, len), ct)
    }

    fn gen_txs(&mut self, n: u64) -> Vec<TransactionView> {
        let cb_lock = if self.txgen.cellbase_universe { universe_lock(self.rng.below(N_LOCKS as u64) as usize) } else { miner_lock() };
        let cellbase = TransactionBuilder::default()
            .input(CellInput::new_cellbase_input(n))
            .witness(Script::default().into_witness())
            .output(CellOutput::new_builder().capacity(Capacity::shannons(5_000_0000_0000).pack()).lock(cb_lock).build())
            .output_data(Bytes::new().pack())
            .build();
        let mut txs = vec![cellbase];
        if !self.rng.chance(self.txgen.density, 100) {
            return txs;
        }
        let count = 1 + self.rng.below(self.txgen.max_txs.max(1));
        // outputs created in this block and still unspent in this block
        let mut fresh: Vec<(OutPoint, CellOutput)> = vec![];
        let mut spent_here: Vec<OutPoint> = vec![];
        // commit pooled (previously orphaned) transactions again when all their inputs are live here
        if !self.mempool.is_empty() && self.rng.chance(70, 100) {
            // an unrelated transaction first, sometimes, so that the position differs from the old branch
            let mut taken = 0;
            let mut i = 0;
            while i < self.mempool.len() && taken < 3 {
                let tx = self.mempool[i].clone();
                let ok = tx.input_pts_iter().all(|op| {
                    !spent_here.contains(&op) && (self.live.contains(&op) || fresh.iter().any(|(o, _)| o == &op))
                });
                if ok && self.rng.chance(3, 4) {
                    for op in tx.input_pts_iter() {
                        spent_here.push(op.clone());
                        fresh.retain(|(o, _)| o != &op);
                    }
                    for (k, o) in tx.outputs().into_iter().enumerate() {
                        fresh.push((OutPoint::new(tx.hash(), k as u32), o));
                    }
                    txs.push(tx);
                    self.mempool.remove(i);
                    taken += 1;
                } else {
                    i += 1;
                }
            }
        }
        for _ in 0..count {
            let n_in = 1 + self.rng.below(2);
            let mut inputs: Vec<(OutPoint, u64)> = vec![];
            for _ in 0..n_in {
                let from_fresh = !fresh.is_empty() && self.rng.chance(self.txgen.same_block, 100);
                if from_fresh {
                    let k = self.rng.below(fresh.len() as u64) as usize;
                    let (op, out) = fresh.remove(k);
                    let cap: Capacity = out.capacity().unpack();
                    inputs.push((op, cap.as_u64()));
                } else {
                    let cands: Vec<&OutPoint> = self.live.iter().filter(|o| !spent_here.contains(o)).collect();
                    if cands.is_empty() {
                        continue;
                    }
                    // bias towards recent cells so that registered scripts see create+spend
                    let len = cands.len() as u64;
                    let k = if self.rng.chance(1, 2) { len - 1 - self.rng.below(len.min(8)) } else { self.rng.below(len) };
                    let op = cands[k as usize].clone();
                    let cap: Capacity = self.cells[&op].output.capacity().unpack();
                    spent_here.push(op.clone());
                    inputs.push((op, cap.as_u64()));
                }
            }
            if inputs.is_empty() {
                continue;
            }
            let total: u64 = inputs.iter().map(|(_, c)| *c).sum();
            let n_out = 1 + self.rng.below(3);
            let mut builder = TransactionBuilder::default();
            for (op, _) in &inputs {
                builder = builder.input(CellInput::new(op.clone(), 0));
            }
            let mut left = total;
            let mut outs = vec![];
            for j in 0..n_out {
                let cap = if j + 1 == n_out { left } else { left / 2 + self.rng.below(left / 4 + 1) };
                left -= cap.min(left);
                let lock = if self.txgen.gate && self.rng.chance(1, 4) {
                    gate_lock()
                } else if self.rng.chance(85, 100) {
                    universe_lock(self.rng.below(N_LOCKS as u64) as usize)
                } else {
                    miner_lock()
                };
                let mut ob = CellOutput::new_builder().capacity(Capacity::shannons(cap).pack()).lock(lock);
                if self.rng.chance(self.txgen.typed, 100) {
                    ob = ob.type_(Some(universe_type(self.rng.below(N_TYPES as u64) as usize)).pack());
                }
                let dlen = if self.rng.chance(1, 3) { self.rng.below(40) } else { 0 };
                let data: Vec<u8> = (0..dlen).map(|_| self.rng.next() as u8).collect();
                outs.push((ob.build(), Bytes::from(data)));
            }
            for (o, d) in &outs {
                builder = builder.output(o.clone()).output_data(d.pack());
            }
            let tx = builder.build();
            for (i, (o, _)) in outs.iter().enumerate() {
                fresh.push((OutPoint::new(tx.hash(), i as u32), o.clone()));
            }
            txs.push(tx);
        }
        txs
    }

    /// Builds (but does not append) the next block on this chain.
    pub fn build_next(&mut self, txs: Option<Vec<TransactionView>>) -> BlockView {
        let n = self.blocks.len() as u64;
        let parent = self.blocks.last().unwrap().clone();
        let (mut epoch, ct) = self.epoch_of(n);
        if let Some((number, index, length)) = self.epoch_override.take() {
            epoch = EpochNumberWithFraction::new_unchecked(number, index, length);
        }
        let root = self.chain_root(n - 1);
        let ext: Vec<u8> = root.calc_mmr_hash().as_slice().to_vec();
        let commits_chain_root = epoch > EpochNumberWithFraction::new(self.mmr_activated_epoch, 0, 1);
        let txs = txs.unwrap_or_else(|| self.gen_txs(n));
        let ts = self.now - 2_000_000 + n * 10;
        let block = BlockBuilder::default()
            .parent_hash(parent.hash())
            .number(n.pack())
            .epoch(epoch.pack())
            .compact_target(ct.pack())
            .timestamp(ts.pack())
            .transactions(txs)
            .extension(if commits_chain_root { Some(Bytes::from(ext).pack()) } else { None })
            .build();
        if self.skip_pow {
            // pick a nonce that is not a solution
            let engine = self.pow.engine();
            let mut nonce = self.rng.next() as u128;
            loop {
                let h = block.header().as_advanced_builder().nonce(nonce.pack()).build();
                if !engine.verify(&h.data()) {
                    return block.as_advanced_builder().header(h).build_unchecked();
                }
                nonce = nonce.wrapping_add(1);
            }
        }
        let (h, tries) = mine_header(&self.pow, block.header(), self.rng.next() as u128);
        self.mined_hashes += tries;
        block.as_advanced_builder().header(h).build_unchecked()
    }

    pub fn mine(&mut self) {
        let b = self.build_next(None);
        self.append(b);
    }

    pub fn mine_n(&mut self, n: u64) {
        for _ in 0..n {
            self.mine();
        }
    }

    /// A competing branch sharing blocks `0..=f` (own MMR store, own UTXO set, own rng stream).
    pub fn fork_at(&self, f: u64, seed: u64) -> Chain {
        let mut c = Chain {
            consensus: self.consensus.clone(),
            pow: self.pow.clone(),
            blocks: vec![],
            total_diff: vec![],
            store: MemStore::default(),
            filters: vec![],
            filter_hashes: vec![],
            cells: HashMap::new(),
            live: vec![],
            epochs: self.epochs.clone(),
            now: self.now,
            rng: Prng::new(seed),
            txgen: self.txgen.clone(),
            mined_hashes: 0,
            mempool: vec![],
            skip_pow: false,
            mmr_activated_epoch: self.mmr_activated_epoch,
            epoch_override: None,
        };
        for b in &self.blocks[..=f as usize] {
            c.append(b.clone());
        }
        // the orphaned transactions go back to the pool of the new branch
        for b in &self.blocks[f as usize + 1..] {
            for tx in b.transactions().into_iter().skip(1) {
                c.mempool.push(tx);
            }
        }
        c
    }

    pub fn verifiable_header(&self, n: u64) -> packed::VerifiableHeader {
        let block = &self.blocks[n as usize];
        let root = if n == 0 { Default::default() } else { self.chain_root(n - 1) };
        packed::VerifiableHeader::new_builder()
            .header(block.data().header())
            .uncles_hash(block.calc_uncles_hash())
            .extension(Pack::pack(&block.extension()))
            .parent_chain_root(root)
            .build()
    }

    pub fn number_of(&self, hash: &Byte32) -> Option<u64> {
        // recent blocks first (requests mostly concern the tip region)
        self.blocks.iter().rposition(|b| &b.hash() == hash).map(|n| n as u64)
    }

    pub fn proof_for(&self, last: u64, numbers: &[u64]) -> packed::HeaderDigestVec {
        if numbers.is_empty() || last == 0 {
            return Default::default();
        }
        let positions = numbers.iter().map(|n| leaf_index_to_pos(*n)).collect::<Vec<_>>();
        ChainRootMMR::new(leaf_index_to_mmr_size(last - 1), &self.store)
            .gen_proof(positions)
            .unwrap()
            .proof_items()
            .to_owned()
            .pack()
    }

    pub fn header(&self, n: u64) -> HeaderView {
        self.blocks[n as usize].header()
    }
}

/// Epoch layout generator: `count` epochs, lengths in 1..=maxlen, block difficulties on a
/// representable grid within [2, 4096], consecutive epochs within tau under both readings.
/// `sat` (percent) biases towards saturating (x2 / ÷2) moves; `avoid_d12` keeps histories out
/// of the known-finding D12 region (never 3+ epoch-difficulty moves of exactly tau in a row).
pub fn gen_epochs(seed: u64, count: usize, maxlen: u64, sat: u64) -> Vec<(u64, u32)> {
    let mut r = Prng::new(seed ^ 0xe90c);
    let mut out = vec![];
    let mut diff: u64 = 4 << r.below(5);
    let mut len: u64 = 1 + r.below(maxlen);
    let real = |d: u64| compact_to_difficulty(difficulty_to_compact(U256::from(d)));
    for _ in 0..count {
        out.push((len, difficulty_to_compact(U256::from(diff))));
        let mut tries = 0;
        loop {
            tries += 1;
            let (nd, nl) = if r.below(100) < sat {
                match r.below(4) {
                    0 => (diff * 2, len),
                    1 => ((diff / 2).max(2), len),
                    2 => (diff, (len * 2).min(maxlen)),
                    _ => (diff, (len / 2).max(1)),
                }
            } else {
                let nd = match r.below(4) {
                    0 => diff,
                    1 => diff + r.below(diff + 1),
                    2 => (diff - r.below(diff / 2 + 1)).max(2),
                    _ => diff * 3 / 2,
                };
                let nl = match r.below(4) {
                    0 => len,
                    1 => (len + 1 + r.below(len + 1)).min(maxlen),
                    2 => len.saturating_sub(1 + r.below(len / 2 + 1)).max(1),
                    _ => 1 + r.below(maxlen),
                };
                (nd, nl)
            };
            if nd < 2 || nd > 4096 || nl == 0 {
                if tries > 50 {
                    break;
                }
                continue;
            }
            let (d0, d1) = (real(diff), real(nd));
            let (e0, e1) = (&d0 * len, &d1 * nl);
            let ok_block = d1 <= &d0 * 2u32 && &d1 * 2u32 >= d0;
            let ok_epoch = e1 <= &e0 * 2u32 && &e1 * 2u32 >= e0;
            if ok_block && ok_epoch {
                // store the representable value
                diff = d1.0[0];
                len = nl;
                break;
            }
            if tries > 50 {
                break;
            }
        }
    }
    out
}
