pub mod chain;
pub mod net;
pub mod server;
pub mod world;
