//! Network context of the simulator: records everything the client sends / bans / disconnects.

use std::collections::VecDeque;
use std::sync::{Arc, Mutex};
use std::time::Duration;

use ckb_network::{
    async_trait, bytes::Bytes as P2pBytes, Behaviour, CKBProtocolContext, Error as NetError, Peer, PeerIndex, ProtocolId, SessionType, SupportProtocols,
    TargetSession,
};

#[derive(Default)]
pub struct Shared {
    pub sent: Mutex<VecDeque<(ProtocolId, PeerIndex, P2pBytes)>>,
    pub banned: Mutex<Vec<(PeerIndex, String)>>,
    /// handler-invocation number (World::events) at which each ban was issued, parallel to `banned`
    pub ban_events: Mutex<Vec<u64>>,
    /// set by the world before every handler call
    pub clock: std::sync::atomic::AtomicU64,
    pub disconnected: Mutex<Vec<(PeerIndex, String)>>,
    /// every message ever sent (protocol, peer, bytes) for history oracles; capped
    pub log: Mutex<Vec<(ProtocolId, PeerIndex, P2pBytes)>>,
    pub log_enabled: Mutex<bool>,
}

pub struct Ctx {
    pub protocol: SupportProtocols,
    pub shared: Arc<Shared>,
}

pub fn ctx(shared: &Arc<Shared>, p: SupportProtocols) -> Arc<dyn CKBProtocolContext + Sync> {
    Arc::new(Ctx { protocol: p, shared: Arc::clone(shared) })
}

pub fn fake_peer(index: PeerIndex) -> Peer {
    // deterministic peer id / address derived from the index
    let id = index.value();
    let mut bytes = vec![0x12u8, 0x20];
    bytes.extend((0..32u8).map(|i| i.wrapping_mul(31).wrapping_add((id & 0xff) as u8).wrapping_add(((id >> 8) & 0xff) as u8)));
    let peer_id = ckb_network::PeerId::from_bytes(bytes).unwrap_or_else(|_| ckb_network::PeerId::random());
    let addr: ckb_network::multiaddr::Multiaddr = format!("/ip4/127.0.0.1/tcp/{}/p2p/{}", 10000 + id % 50000, peer_id.to_base58()).parse().unwrap();
    Peer::new(index, SessionType::Outbound, addr, false)
}

#[async_trait]
impl CKBProtocolContext for Ctx {
    fn ckb2023(&self) -> bool {
        false
    }
    async fn set_notify(&self, _i: Duration, _t: u64) -> Result<(), NetError> {
        Ok(())
    }
    async fn remove_notify(&self, _t: u64) -> Result<(), NetError> {
        Ok(())
    }
    async fn async_quick_send_message(&self, p: ProtocolId, i: PeerIndex, d: P2pBytes) -> Result<(), NetError> {
        self.send_message(p, i, d)
    }
    async fn async_quick_send_message_to(&self, i: PeerIndex, d: P2pBytes) -> Result<(), NetError> {
        self.send_message_to(i, d)
    }
    async fn async_quick_filter_broadcast(&self, _t: TargetSession, _d: P2pBytes) -> Result<(), NetError> {
        Ok(())
    }
    async fn async_future_task(&self, _task: std::pin::Pin<Box<dyn std::future::Future<Output = ()> + 'static + Send>>, _b: bool) -> Result<(), NetError> {
        Ok(())
    }
    async fn async_send_message(&self, p: ProtocolId, i: PeerIndex, d: P2pBytes) -> Result<(), NetError> {
        self.send_message(p, i, d)
    }
    async fn async_send_message_to(&self, i: PeerIndex, d: P2pBytes) -> Result<(), NetError> {
        self.send_message_to(i, d)
    }
    async fn async_filter_broadcast(&self, _t: TargetSession, _d: P2pBytes) -> Result<(), NetError> {
        Ok(())
    }
    async fn async_disconnect(&self, i: PeerIndex, m: &str) -> Result<(), NetError> {
        self.disconnect(i, m)
    }
    fn quick_send_message(&self, p: ProtocolId, i: PeerIndex, d: P2pBytes) -> Result<(), NetError> {
        self.send_message(p, i, d)
    }
    fn quick_send_message_to(&self, i: PeerIndex, d: P2pBytes) -> Result<(), NetError> {
        self.send_message_to(i, d)
    }
    fn quick_filter_broadcast(&self, _t: TargetSession, _d: P2pBytes) -> Result<(), NetError> {
        Ok(())
    }
    fn future_task(&self, _task: std::pin::Pin<Box<dyn std::future::Future<Output = ()> + 'static + Send>>, _b: bool) -> Result<(), NetError> {
        Ok(())
    }
    fn send_message(&self, p: ProtocolId, i: PeerIndex, d: P2pBytes) -> Result<(), NetError> {
        if *self.shared.log_enabled.lock().unwrap() {
            let mut log = self.shared.log.lock().unwrap();
            if log.len() < 100_000 {
                log.push((p, i, d.clone()));
            }
        }
        self.shared.sent.lock().unwrap().push_back((p, i, d));
        Ok(())
    }
    fn send_message_to(&self, i: PeerIndex, d: P2pBytes) -> Result<(), NetError> {
        self.send_message(self.protocol_id(), i, d)
    }
    fn filter_broadcast(&self, _t: TargetSession, _d: P2pBytes) -> Result<(), NetError> {
        Ok(())
    }
    fn disconnect(&self, i: PeerIndex, m: &str) -> Result<(), NetError> {
        self.shared.disconnected.lock().unwrap().push((i, m.to_string()));
        Ok(())
    }
    fn get_peer(&self, i: PeerIndex) -> Option<Peer> {
        Some(fake_peer(i))
    }
    fn with_peer_mut(&self, _i: PeerIndex, _f: Box<dyn FnOnce(&mut Peer)>) {}
    fn connected_peers(&self) -> Vec<PeerIndex> {
        vec![]
    }
    fn report_peer(&self, _i: PeerIndex, _b: Behaviour) {}
    fn ban_peer(&self, i: PeerIndex, _d: Duration, reason: String) {
        self.shared.banned.lock().unwrap().push((i, reason));
        self.shared.ban_events.lock().unwrap().push(self.shared.clock.load(std::sync::atomic::Ordering::SeqCst));
    }
    fn protocol_id(&self) -> ProtocolId {
        self.protocol.protocol_id()
    }
    /// A real tentacle controller whose service never runs: open / close protocol commands are queued and dropped
    /// (the simulator emulates their effect itself).
    fn p2p_control(&self) -> Option<&ckb_network::ServiceControl> {
        static CONTROL: std::sync::OnceLock<ckb_network::ServiceControl> = std::sync::OnceLock::new();
        Some(CONTROL.get_or_init(|| {
            let service = Box::leak(Box::new(ckb_network::ServiceBuilder::default().build(())));
            service.control().clone().into()
        }))
    }
}
