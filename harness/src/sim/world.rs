//! The simulated world: one real client (storage, Peers, the four protocol handlers, the RPC
//! structs) talking to simulated peers over a recording network context, with a harness-owned
//! clock and scheduler.

use std::collections::{BTreeMap, HashMap};
use std::hash::{Hash, Hasher};
use std::sync::{Arc, RwLock};

use ckb_network::{bytes::Bytes as P2pBytes, CKBProtocolHandler, PeerIndex, ProtocolId, SupportProtocols};
use ckb_types::{packed, prelude::*, H256};

use super::chain::Chain;
use super::net::{ctx, Shared};
use super::server::{self, View};
use crate::protocols::{FilterProtocol, LightClientProtocol, Peers, PendingTxs, RelayProtocol, SyncProtocol};
use crate::service::{BlockFilterRpcImpl, ChainRpcImpl, TransactionRpcImpl};
use crate::storage::{Storage, StorageWithChainData};

#[derive(Clone, Debug)]
pub struct Cfg {
    pub last_n: u64,
    pub max_outbound: u32,
    pub interval: u64,
    pub filter_batch: usize,
    pub hashes_batch: usize,
    pub checkpoints_batch: usize,
    pub mmr_activated_epoch: u64,
    /// answer proofs in v1 (with uncles hash / extension) or v0 shape
    pub v1: bool,
    pub clock_step_ms: u64,
}

impl Default for Cfg {
    fn default() -> Self {
        Cfg { last_n: 5, max_outbound: 1, interval: 8, filter_batch: 7, hashes_batch: 2000, checkpoints_batch: 2000, mmr_activated_epoch: 0, v1: true, clock_step_ms: 50 }
    }
}

#[derive(Clone, Debug)]
pub struct SimPeer {
    pub index: PeerIndex,
    pub chain: usize,
    pub tip: u64,
    pub connected: bool,
    /// follows the growth of its chain and pushes new last states (subscribe = true)
    pub follow: bool,
    /// deviating peer: corrupts the block filter hashes it serves (C06)
    pub bad_filter_hashes: bool,
}

pub const START_TIME: u64 = 1_700_000_000_000;

pub fn set_now(ms: u64) {
    // the guard disables faketime on drop: leak it
    let g = ckb_systemtime::faketime();
    g.set_faketime(ms);
    std::mem::forget(g);
}

pub struct Client {
    pub storage: Storage,
    pub peers: Arc<Peers>,
    pub lc: LightClientProtocol,
    pub filter: FilterProtocol,
    pub sync: SyncProtocol,
    pub relay: RelayProtocol,
    pub pending_txs: Arc<RwLock<PendingTxs>>,
}

pub struct World {
    pub dir: Option<tempfile::TempDir>,
    pub client: Option<Client>,
    pub shared: Arc<Shared>,
    pub cfg: Cfg,
    pub now: u64,
    pub chains: Vec<Chain>,
    pub sim_peers: Vec<SimPeer>,
    pub next_index: usize,
    pub stats: BTreeMap<&'static str, u64>,
    pub disconnects_seen: usize,
    /// (peer, reason) of every disconnect requested by the client
    pub disconnect_log: Vec<(PeerIndex, String)>,
    pub steps: u64,
    /// handler invocations (received / notify) so far; survives restarts
    pub events: u64,
    /// C08 control: die right before (false) / after (true) the handler invocation with this number
    pub boundary_crash: Option<(u64, bool)>,
    /// (handler-invocation number, new stored tip hash) for every change of the stored tip (when `record_tip_moves`)
    pub record_tip_moves: bool,
    pub tip_moves: Vec<(u64, ckb_types::packed::Byte32)>,
    /// per peer: layout of the last honest SendLastStateProof + number of requested difficulties
    pub last_layouts: HashMap<PeerIndex, (server::ProofLayout, usize)>,
    /// every message delivered to the client (when `record_deliveries` is on), for history oracles
    pub record_deliveries: bool,
    pub delivered: Vec<(ProtocolId, PeerIndex, P2pBytes)>,
}

pub type Msg = (ProtocolId, PeerIndex, P2pBytes);

impl World {
    pub fn new(chains: Vec<Chain>, cfg: Cfg) -> Self {
        Self::new_opt(chains, cfg, true)
    }

    /// `boot = false`: the store directory exists but nothing was opened yet (C08 crashes the first start).
    pub fn new_opt(chains: Vec<Chain>, cfg: Cfg, boot: bool) -> Self {
        let dir = tempfile::Builder::new().prefix("lcv").tempdir_in(crate::lcv::tmp_root()).unwrap();
        let now = chains[0].now;
        set_now(now);
        let mut w = World {
            dir: Some(dir),
            client: None,
            shared: Arc::new(Shared::default()),
            cfg,
            now,
            chains,
            sim_peers: vec![],
            next_index: 1,
            stats: BTreeMap::new(),
            disconnects_seen: 0,
            disconnect_log: vec![],
            steps: 0,
            events: 0,
            boundary_crash: None,
            record_tip_moves: false,
            tip_moves: vec![],
            last_layouts: HashMap::new(),
            record_deliveries: false,
            delivered: vec![],
        };
        if boot {
            w.boot();
        }
        w
    }

    /// Builds all in-memory objects from the store exactly like `RunConfig::execute`.
    pub fn boot(&mut self) {
        let path = self.dir.as_ref().unwrap().path().to_owned();
        let storage = Storage::new(&path);
        let consensus = self.chains[0].consensus.clone();
        storage.init_genesis_block(consensus.genesis_block().data());
        let pending_txs = Arc::new(RwLock::new(PendingTxs::default()));
        let peers = Arc::new(Peers::new(self.cfg.max_outbound, self.cfg.interval, storage.get_last_check_point()));
        let mut lc = LightClientProtocol::new(storage.clone(), Arc::clone(&peers), consensus.clone());
        lc.set_last_n_blocks(self.cfg.last_n);
        lc.set_mmr_activated_epoch(self.cfg.mmr_activated_epoch);
        let filter = FilterProtocol::new(storage.clone(), Arc::clone(&peers));
        let sync = SyncProtocol::new(storage.clone(), Arc::clone(&peers));
        let relay = RelayProtocol::new(Arc::clone(&pending_txs), Arc::clone(&peers), consensus, storage.clone(), false);
        self.client = Some(Client { storage, peers, lc, filter, sync, relay, pending_txs });
    }

    /// Process kill + restart: every in-memory object is dropped (RocksDB closes), all simulated
    /// connections are gone, then `boot`.
    pub fn restart(&mut self) {
        self.client = None;
        self.shared = Arc::new(Shared::default());
        self.disconnects_seen = 0;
        for p in self.sim_peers.iter_mut() {
            p.connected = false;
        }
        self.boot();
    }

    pub fn c(&self) -> &Client {
        self.client.as_ref().unwrap()
    }
    pub fn cm(&mut self) -> &mut Client {
        self.client.as_mut().unwrap()
    }
    pub fn storage(&self) -> &Storage {
        &self.c().storage
    }
    pub fn swc(&self) -> StorageWithChainData {
        let c = self.c();
        StorageWithChainData::new(c.storage.clone(), Arc::clone(&c.peers), Arc::clone(&c.pending_txs))
    }
    pub fn filter_rpc(&self) -> BlockFilterRpcImpl {
        BlockFilterRpcImpl { swc: self.swc() }
    }
    pub fn chain_rpc(&self) -> ChainRpcImpl {
        ChainRpcImpl { swc: self.swc(), consensus: Arc::new(self.chains[0].consensus.clone()) }
    }
    pub fn tx_rpc(&self) -> TransactionRpcImpl {
        TransactionRpcImpl { swc: self.swc(), consensus: Arc::new(self.chains[0].consensus.clone()) }
    }

    pub fn bump(&mut self, k: &'static str) {
        *self.stats.entry(k).or_default() += 1;
    }

    pub fn advance(&mut self, ms: u64) {
        self.now += ms;
        set_now(self.now);
    }

    pub fn peer(&self, index: PeerIndex) -> Option<&SimPeer> {
        self.sim_peers.iter().find(|p| p.index == index)
    }
    pub fn peer_mut(&mut self, index: PeerIndex) -> Option<&mut SimPeer> {
        self.sim_peers.iter_mut().find(|p| p.index == index)
    }

    /// A new peer (fresh PeerIndex) with a view of `chain` up to `tip` connects on all protocols.
    pub fn connect(&mut self, chain: usize, tip: u64, follow: bool) -> PeerIndex {
        let index = PeerIndex::new(self.next_index);
        self.next_index += 1;
        self.sim_peers.push(SimPeer { index, chain, tip, connected: true, follow, bad_filter_hashes: false });
        let shared = Arc::clone(&self.shared);
        let c = self.cm();
        futures::executor::block_on(c.sync.connected(ctx(&shared, SupportProtocols::Sync), index, "2"));
        futures::executor::block_on(c.lc.connected(ctx(&shared, SupportProtocols::LightClient), index, "2"));
        futures::executor::block_on(c.filter.connected(ctx(&shared, SupportProtocols::Filter), index, "2"));
        index
    }

    /// The connection to `index` is closed (by either side): `disconnected` on every protocol.
    pub fn disconnect(&mut self, index: PeerIndex) {
        if let Some(p) = self.peer_mut(index) {
            if !p.connected {
                return;
            }
            p.connected = false;
        }
        let shared = Arc::clone(&self.shared);
        let c = self.cm();
        futures::executor::block_on(c.lc.disconnected(ctx(&shared, SupportProtocols::LightClient), index));
        futures::executor::block_on(c.filter.disconnected(ctx(&shared, SupportProtocols::Filter), index));
        futures::executor::block_on(c.sync.disconnected(ctx(&shared, SupportProtocols::Sync), index));
        futures::executor::block_on(c.relay.disconnected(ctx(&shared, SupportProtocols::RelayV2), index));
        // messages in flight to that peer are lost
        self.shared.sent.lock().unwrap().retain(|(_, p, _)| *p != index);
    }

    /// Turns disconnect requests of the client into `disconnected` callbacks (as tentacle would).
    pub fn process_disconnect_requests(&mut self) {
        loop {
            let next = {
                let d = self.shared.disconnected.lock().unwrap();
                d.get(self.disconnects_seen).cloned()
            };
            match next {
                Some((p, reason)) => {
                    self.disconnects_seen += 1;
                    self.disconnect_log.push((p, reason));
                    self.disconnect(p);
                }
                None => break,
            }
        }
    }

    pub fn bans(&self) -> Vec<(PeerIndex, String)> {
        self.shared.banned.lock().unwrap().clone()
    }

    pub fn outbox_len(&self) -> usize {
        self.shared.sent.lock().unwrap().len()
    }

    pub fn pop_request(&mut self) -> Option<Msg> {
        self.shared.sent.lock().unwrap().pop_front()
    }

    /// Removes and returns the i-th in-flight message.
    pub fn take_request(&mut self, i: usize) -> Option<Msg> {
        self.shared.sent.lock().unwrap().remove(i)
    }

    pub fn proto_of(id: ProtocolId) -> Option<SupportProtocols> {
        for p in [SupportProtocols::LightClient, SupportProtocols::Filter, SupportProtocols::Sync, SupportProtocols::RelayV2, SupportProtocols::RelayV3] {
            if p.protocol_id() == id {
                return Some(p);
            }
        }
        None
    }

    /// Delivers one message from `peer` to the client on `proto`.
    pub fn deliver(&mut self, proto: SupportProtocols, peer: PeerIndex, data: P2pBytes) {
        self.steps += 1;
        self.events += 1;
        if self.boundary_crash == Some((self.events, false)) {
            panic!("LCV-CRASH:boundary-before-handler");
        }
        if self.record_deliveries {
            self.delivered.push((proto.protocol_id(), peer, data.clone()));
        }
        self.shared.clock.store(self.events, std::sync::atomic::Ordering::SeqCst);
        let tip_before = if self.record_tip_moves { Some(self.storage().get_tip_header().calc_header_hash()) } else { None };
        let shared = Arc::clone(&self.shared);
        let c = self.cm();
        let nc = ctx(&shared, proto.clone());
        match proto {
            SupportProtocols::LightClient => futures::executor::block_on(c.lc.received(nc, peer, data)),
            SupportProtocols::Filter => futures::executor::block_on(c.filter.received(nc, peer, data)),
            SupportProtocols::Sync => futures::executor::block_on(c.sync.received(nc, peer, data)),
            SupportProtocols::RelayV2 | SupportProtocols::RelayV3 => futures::executor::block_on(c.relay.received(nc, peer, data)),
            _ => {}
        }
        if self.boundary_crash == Some((self.events, true)) {
            panic!("LCV-CRASH:boundary-after-handler");
        }
        if let Some(b) = tip_before {
            let a = self.storage().get_tip_header().calc_header_hash();
            if a != b {
                self.tip_moves.push((self.events, a));
            }
        }
        self.process_disconnect_requests();
    }

    pub fn tick(&mut self, proto: SupportProtocols, token: u64) {
        self.events += 1;
        if self.boundary_crash == Some((self.events, false)) {
            panic!("LCV-CRASH:boundary-before-handler");
        }
        self.shared.clock.store(self.events, std::sync::atomic::Ordering::SeqCst);
        let shared = Arc::clone(&self.shared);
        let c = self.cm();
        let nc = ctx(&shared, proto.clone());
        match proto {
            SupportProtocols::LightClient => futures::executor::block_on(c.lc.notify(nc, token)),
            SupportProtocols::Filter => {
                if token == 0 {
                    // emulate the 15 s `Instant` timeout of GetBlockFilters
                    *c.filter.last_ask_time.write().unwrap() = None;
                }
                futures::executor::block_on(c.filter.notify(nc, token))
            }
            _ => {}
        }
        if self.boundary_crash == Some((self.events, true)) {
            panic!("LCV-CRASH:boundary-after-handler");
        }
        self.process_disconnect_requests();
    }

    pub fn tick_all(&mut self) {
        for t in [0u64, 1, 2] {
            self.tick(SupportProtocols::LightClient, t);
        }
        for t in [2u64, 1, 0] {
            self.tick(SupportProtocols::Filter, t);
        }
    }

    /// The honest answer(s) of the addressed peer to one client message.
    pub fn honest_replies(&mut self, msg: &Msg) -> Vec<(SupportProtocols, P2pBytes)> {
        let (proto, peer, data) = msg;
        let sp = match self.peer(*peer) {
            Some(p) if p.connected => p.clone(),
            _ => return vec![],
        };
        let view = View { chain: &self.chains[sp.chain], tip: sp.tip };
        let mut out = vec![];
        let mut stat: Option<&'static str> = None;
        if *proto == SupportProtocols::LightClient.protocol_id() {
            let m = match packed::LightClientMessage::from_slice(data) {
                Ok(m) => m,
                Err(_) => return vec![],
            };
            match m.to_enum() {
                packed::LightClientMessageUnion::GetLastState(_) => {
                    stat = Some("GetLastState");
                    out.push((SupportProtocols::LightClient, view.send_last_state().as_bytes()));
                }
                packed::LightClientMessageUnion::GetLastStateProof(req) => {
                    stat = Some(if req.difficulties().is_empty() { "GetLastStateProof" } else { "GetLastStateProof.sampled" });
                    let (resp, layout) = view.send_last_state_proof(&req);
                    if let Some(l) = layout {
                        self.last_layouts.insert(*peer, (l, req.difficulties().len()));
                    }
                    out.push((SupportProtocols::LightClient, server::wrap_lc(resp).as_bytes()));
                }
                packed::LightClientMessageUnion::GetBlocksProof(req) => {
                    stat = Some("GetBlocksProof");
                    let v1 = view.send_blocks_proof(&req);
                    let m = if self.cfg.v1 {
                        server::blocks_proof_v1_msg(&v1)
                    } else {
                        server::wrap_lc(
                            packed::SendBlocksProof::new_builder()
                                .last_header(v1.last_header())
                                .proof(v1.proof())
                                .headers(v1.headers())
                                .missing_block_hashes(v1.missing_block_hashes())
                                .build(),
                        )
                    };
                    out.push((SupportProtocols::LightClient, m.as_bytes()));
                }
                packed::LightClientMessageUnion::GetTransactionsProof(req) => {
                    stat = Some("GetTransactionsProof");
                    let v1 = view.send_transactions_proof(&req);
                    let m = if self.cfg.v1 {
                        server::txs_proof_v1_msg(&v1)
                    } else {
                        server::wrap_lc(
                            packed::SendTransactionsProof::new_builder()
                                .last_header(v1.last_header())
                                .proof(v1.proof())
                                .filtered_blocks(v1.filtered_blocks())
                                .missing_tx_hashes(v1.missing_tx_hashes())
                                .build(),
                        )
                    };
                    out.push((SupportProtocols::LightClient, m.as_bytes()));
                }
                _ => {}
            }
        } else if *proto == SupportProtocols::Filter.protocol_id() {
            let m = match packed::BlockFilterMessage::from_slice(data) {
                Ok(m) => m,
                Err(_) => return vec![],
            };
            match m.to_enum() {
                packed::BlockFilterMessageUnion::GetBlockFilters(req) => {
                    stat = Some("GetBlockFilters");
                    if let Some(r) = view.block_filters(req.start_number().unpack(), self.cfg.filter_batch) {
                        out.push((SupportProtocols::Filter, server::wrap_filter(r).as_bytes()));
                    }
                }
                packed::BlockFilterMessageUnion::GetBlockFilterHashes(req) => {
                    stat = Some("GetBlockFilterHashes");
                    if let Some(r) = view.block_filter_hashes(req.start_number().unpack(), self.cfg.hashes_batch) {
                        let r = if sp.bad_filter_hashes {
                            // every hash from the second one on is wrong (consistently, so the peer does not contradict itself)
                            let hs: Vec<packed::Byte32> = r
                                .block_filter_hashes()
                                .into_iter()
                                .enumerate()
                                .map(|(i, h)| {
                                    if i == 0 {
                                        h
                                    } else {
                                        let mut b = h.as_slice().to_vec();
                                        b[0] ^= 0xff;
                                        packed::Byte32::from_slice(&b).unwrap()
                                    }
                                })
                                .collect();
                            r.as_builder().block_filter_hashes(hs.pack()).build()
                        } else {
                            r
                        };
                        out.push((SupportProtocols::Filter, server::wrap_filter(r).as_bytes()));
                    }
                }
                packed::BlockFilterMessageUnion::GetBlockFilterCheckPoints(req) => {
                    stat = Some("GetBlockFilterCheckPoints");
                    let r = view.block_filter_check_points(req.start_number().unpack(), self.cfg.interval, self.cfg.checkpoints_batch);
                    out.push((SupportProtocols::Filter, server::wrap_filter(r).as_bytes()));
                }
                _ => {}
            }
        } else if *proto == SupportProtocols::Sync.protocol_id() {
            if let Ok(m) = packed::SyncMessage::from_slice(data) {
                if let packed::SyncMessageUnion::GetBlocks(req) = m.to_enum() {
                    stat = Some("GetBlocks");
                    for h in req.block_hashes().into_iter() {
                        if let Some(n) = view.number_of(&h) {
                            let blk = view.chain.blocks[n as usize].data();
                            out.push((SupportProtocols::Sync, server::send_block_msg(&blk).as_bytes()));
                        }
                    }
                }
            }
        }
        if let Some(s) = stat {
            self.bump(s);
        }
        out
    }

    /// Answers every in-flight client message honestly (FIFO) until nothing is in flight.
    pub fn pump(&mut self) -> usize {
        let mut n = 0;
        while let Some(msg) = self.pop_request() {
            n += 1;
            let peer = msg.1;
            for (proto, bytes) in self.honest_replies(&msg) {
                self.deliver(proto, peer, bytes);
            }
            if n > 30_000 {
                // a request/response ping-pong that never ends: surfaced as a failure of the running case
                panic!("pump livelock: more than 30000 messages exchanged without quiescence (last request on protocol {:?} to peer {})", msg.0, peer);
            }
        }
        n
    }

    /// Mines `n` blocks on `chain`; following peers move their tip and announce it.
    pub fn grow(&mut self, chain: usize, n: u64) {
        self.chains[chain].mine_n(n);
        self.announce_tips(chain);
    }

    pub fn announce_tips(&mut self, chain: usize) {
        let tip = self.chains[chain].tip();
        let targets: Vec<PeerIndex> = self
            .sim_peers
            .iter_mut()
            .filter(|p| p.connected && p.follow && p.chain == chain && p.tip != tip)
            .map(|p| {
                p.tip = tip;
                p.index
            })
            .collect();
        for index in targets {
            let sp = self.peer(index).unwrap().clone();
            let bytes = View { chain: &self.chains[sp.chain], tip: sp.tip }.send_last_state().as_bytes();
            self.deliver(SupportProtocols::LightClient, index, bytes);
        }
    }

    /// Moves a peer to another branch/height and announces the new last state.
    pub fn switch_peer(&mut self, index: PeerIndex, chain: usize, tip: u64) {
        if let Some(p) = self.peer_mut(index) {
            p.chain = chain;
            p.tip = tip;
        }
        let bytes = View { chain: &self.chains[chain], tip }.send_last_state().as_bytes();
        self.deliver(SupportProtocols::LightClient, index, bytes);
    }

    /// Digest of the whole RocksDB keyspace (ordered).
    pub fn store_digest(&self) -> u64 {
        use rocksdb::{prelude::*, IteratorMode};
        let mut h = std::collections::hash_map::DefaultHasher::new();
        let db = &self.storage().db;
        for (k, v) in db.iterator(IteratorMode::Start) {
            k.hash(&mut h);
            v.hash(&mut h);
        }
        h.finish()
    }

    pub fn store_dump(&self) -> Vec<(Vec<u8>, Vec<u8>)> {
        use rocksdb::{prelude::*, IteratorMode};
        self.storage().db.iterator(IteratorMode::Start).map(|(k, v)| (k.to_vec(), v.to_vec())).collect()
    }

    /// Digest of in-memory sync state: every peer's state (with prove state summary) + matched blocks.
    pub fn memory_digest(&self) -> u64 {
        let mut h = std::collections::hash_map::DefaultHasher::new();
        let c = self.c();
        let mut idx = c.peers.get_peers_index();
        idx.sort_by_key(|p| p.value());
        for i in idx {
            if let Some(s) = c.peers.get_state(&i) {
                i.value().hash(&mut h);
                format!("{:#}", s).hash(&mut h);
            }
        }
        let mb = c.peers.matched_blocks().read().unwrap();
        let mut keys: Vec<(H256, bool, bool)> = mb.iter().map(|(k, v)| (k.clone(), v.0, v.1.is_some())).collect();
        keys.sort();
        for k in keys {
            k.0.as_bytes().hash(&mut h);
            k.1.hash(&mut h);
            k.2.hash(&mut h);
        }
        h.finish()
    }

    /// Runs the fair schedule (deliver everything, fire every timer, advance the clock a little)
    /// until `goal` holds or a fixpoint is reached. Returns (rounds, reached_goal, fixpoint).
    pub fn drain<F: FnMut(&mut World) -> bool>(&mut self, max_rounds: usize, mut goal: F) -> DrainResult {
        let mut same = 0;
        let mut last = (0u64, 0u64);
        for round in 0..max_rounds {
            let delivered = self.pump();
            if goal(self) && self.outbox_len() == 0 {
                return DrainResult { rounds: round, goal: true, fixpoint: false };
            }
            self.tick_all();
            self.advance(self.cfg.clock_step_ms);
            let d = (self.store_digest(), self.memory_digest());
            if delivered == 0 && self.outbox_len() == 0 && d == last {
                same += 1;
                if same >= 3 {
                    return DrainResult { rounds: round, goal: goal(self), fixpoint: true };
                }
            } else {
                same = 0;
            }
            last = d;
        }
        DrainResult { rounds: max_rounds, goal: goal(self), fixpoint: false }
    }

    pub fn connected_peers(&self) -> Vec<SimPeer> {
        self.sim_peers.iter().filter(|p| p.connected).cloned().collect()
    }
}

#[derive(Debug, Clone, Copy)]
pub struct DrainResult {
    pub rounds: usize,
    pub goal: bool,
    pub fixpoint: bool,
}

impl Drop for World {
    fn drop(&mut self) {
        self.client = None;
        self.dir = None;
    }
}

pub fn matched_blocks_keys(w: &World) -> HashMap<H256, (bool, bool)> {
    w.c().peers.matched_blocks().read().unwrap().iter().map(|(k, v)| (k.clone(), (v.0, v.1.is_some()))).collect()
}
