//! Honest full node as seen by the light client (RFC 44 / 45 server side), written against the
//! RFC text and the hand-built responses of the repository's own tests. Part of the trusted base
//! of the whole-sync properties (DESIGN.md §4.2).

use ckb_types::{
    packed::{self, Byte32},
    prelude::*,
    utilities::{merkle_root, CBMT},
    U256,
};

use super::chain::Chain;

/// A peer's view: a chain and the height it has reached.
#[derive(Clone, Copy)]
pub struct View<'a> {
    pub chain: &'a Chain,
    pub tip: u64,
}

/// Which numbers an honest `SendLastStateProof` contains (ground truth used by oracles too).
#[derive(Debug, Clone, Default)]
pub struct ProofLayout {
    pub reorg: Vec<u64>,
    pub sampled: Vec<u64>,
    pub last_n: Vec<u64>,
    /// the request's boundary lies inside the last block's own difficulty interval (DESIGN §4.2)
    pub boundary_in_last_block: bool,
}

impl ProofLayout {
    pub fn numbers(&self) -> Vec<u64> {
        let mut v = self.reorg.clone();
        v.extend(&self.sampled);
        v.extend(&self.last_n);
        v.dedup();
        v
    }
}

impl<'a> View<'a> {
    pub fn number_of(&self, hash: &Byte32) -> Option<u64> {
        self.chain.number_of(hash).filter(|n| *n <= self.tip)
    }

    fn first_td_ge(&self, from: u64, to_excl: u64, d: &U256) -> Option<u64> {
        // binary search over the monotone cumulative difficulty
        let (mut lo, mut hi) = (from, to_excl);
        if from >= to_excl || &self.chain.total_diff[(to_excl - 1) as usize] < d {
            return None;
        }
        while lo < hi {
            let mid = (lo + hi) / 2;
            if &self.chain.total_diff[mid as usize] >= d {
                hi = mid;
            } else {
                lo = mid + 1;
            }
        }
        Some(lo)
    }

    pub fn send_last_state(&self) -> packed::LightClientMessage {
        packed::LightClientMessage::new_builder()
            .set(packed::SendLastState::new_builder().last_header(self.chain.verifiable_header(self.tip)).build())
            .build()
    }

    pub fn proof_layout(&self, req: &packed::GetLastStateProof, last: u64) -> ProofLayout {
        let start_number: u64 = req.start_number().unpack();
        let start_hash = req.start_hash();
        let last_n: u64 = req.last_n_blocks().unpack();
        let boundary: U256 = req.difficulty_boundary().unpack();
        let mut difficulties: Vec<U256> = req.difficulties().into_iter().map(|d| d.unpack()).collect();
        let mut layout = ProofLayout::default();
        let start_is_ancestor = start_number <= last && self.chain.blocks[start_number as usize].hash() == start_hash;
        if start_number != 0 && !start_is_ancestor {
            let min = if start_number > last_n { start_number - last_n } else { 1 };
            layout.reorg = (min..start_number.min(last)).collect();
        }
        if start_number >= last {
            return layout;
        }
        if last - start_number <= last_n {
            layout.last_n = (start_number..last).collect();
        } else {
            let mut b = match self.first_td_ge(start_number, last, &boundary) {
                Some(b) => b,
                None => {
                    layout.boundary_in_last_block = true;
                    last
                }
            };
            if last - b < last_n {
                b = last - last_n;
            }
            layout.last_n = (b..last).collect();
            if b > 0 {
                let td = &self.chain.total_diff[b as usize - 1];
                difficulties.retain(|d| d <= td);
                let mut cur = U256::zero();
                let mut from = start_number;
                for d in &difficulties {
                    if &cur >= d {
                        continue;
                    }
                    if let Some(n) = self.first_td_ge(from, b, d) {
                        from = n;
                        layout.sampled.push(n);
                        cur = self.chain.total_diff[n as usize].clone();
                    }
                }
            }
        }
        layout
    }

    pub fn send_last_state_proof(&self, req: &packed::GetLastStateProof) -> (packed::SendLastStateProof, Option<ProofLayout>) {
        let last = match self.number_of(&req.last_hash()) {
            Some(n) => n,
            None => {
                return (packed::SendLastStateProof::new_builder().last_header(self.chain.verifiable_header(self.tip)).build(), None);
            }
        };
        let layout = self.proof_layout(req, last);
        let numbers = layout.numbers();
        let headers: Vec<packed::VerifiableHeader> = numbers.iter().map(|n| self.chain.verifiable_header(*n)).collect();
        let msg = packed::SendLastStateProof::new_builder()
            .last_header(self.chain.verifiable_header(last))
            .proof(self.chain.proof_for(last, &numbers))
            .headers(headers.pack())
            .build();
        (msg, Some(layout))
    }

    pub fn send_blocks_proof(&self, req: &packed::GetBlocksProof) -> packed::SendBlocksProofV1 {
        let last = match self.number_of(&req.last_hash()) {
            Some(n) => n,
            None => return packed::SendBlocksProofV1::new_builder().last_header(self.chain.verifiable_header(self.tip)).build(),
        };
        let mut found = vec![];
        let mut missing = vec![];
        for h in req.block_hashes().into_iter() {
            match self.number_of(&h) {
                Some(n) if n < last => found.push(n),
                _ => missing.push(h),
            }
        }
        found.sort();
        found.dedup();
        let c = self.chain;
        let headers: Vec<packed::Header> = found.iter().map(|n| c.blocks[*n as usize].data().header()).collect();
        let uncles: Vec<Byte32> = found.iter().map(|n| c.blocks[*n as usize].calc_uncles_hash()).collect();
        let exts: Vec<packed::BytesOpt> = found.iter().map(|n| Pack::pack(&c.blocks[*n as usize].extension())).collect();
        packed::SendBlocksProofV1::new_builder()
            .last_header(c.verifiable_header(last))
            .proof(c.proof_for(last, &found))
            .headers(headers.pack())
            .missing_block_hashes(missing.pack())
            .blocks_uncles_hash(uncles.pack())
            .blocks_extension(packed::BytesOptVec::new_builder().set(exts).build())
            .build()
    }

    pub fn send_transactions_proof(&self, req: &packed::GetTransactionsProof) -> packed::SendTransactionsProofV1 {
        let c = self.chain;
        let last = match self.number_of(&req.last_hash()) {
            Some(n) => n,
            None => return packed::SendTransactionsProofV1::new_builder().last_header(c.verifiable_header(self.tip)).build(),
        };
        // tx hash -> (block, index)
        let mut by_block: std::collections::BTreeMap<u64, Vec<u32>> = Default::default();
        let mut missing = vec![];
        for h in req.tx_hashes().into_iter() {
            let mut found = None;
            for n in 0..last {
                if let Some(i) = c.blocks[n as usize].transactions().iter().position(|t| t.hash() == h) {
                    found = Some((n, i as u32));
                    break;
                }
            }
            match found {
                Some((n, i)) => {
                    let e = by_block.entry(n).or_default();
                    if !e.contains(&i) {
                        e.push(i)
                    }
                }
                None => missing.push(h),
            }
        }
        let mut filtered = vec![];
        let mut uncles = vec![];
        let mut exts: Vec<packed::BytesOpt> = vec![];
        let numbers: Vec<u64> = by_block.keys().cloned().collect();
        for (n, mut idxs) in by_block {
            idxs.sort();
            let b = &c.blocks[n as usize];
            let hashes: Vec<Byte32> = b.transactions().iter().map(|t| t.hash()).collect();
            let proof = CBMT::build_merkle_proof(&hashes, &idxs).expect("merkle proof");
            let txs: Vec<packed::Transaction> = idxs.iter().map(|i| b.transactions()[*i as usize].data()).collect();
            let fb = packed::FilteredBlock::new_builder()
                .header(b.data().header())
                .witnesses_root(b.calc_witnesses_root())
                .transactions(txs.pack())
                .proof(
                    packed::MerkleProof::new_builder()
                        .indices(proof.indices().to_owned().pack())
                        .lemmas(proof.lemmas().to_owned().pack())
                        .build(),
                )
                .build();
            filtered.push(fb);
            uncles.push(b.calc_uncles_hash());
            exts.push(Pack::pack(&b.extension()));
        }
        packed::SendTransactionsProofV1::new_builder()
            .last_header(c.verifiable_header(last))
            .proof(c.proof_for(last, &numbers))
            .filtered_blocks(packed::FilteredBlockVec::new_builder().set(filtered).build())
            .missing_tx_hashes(missing.pack())
            .blocks_uncles_hash(uncles.pack())
            .blocks_extension(packed::BytesOptVec::new_builder().set(exts).build())
            .build()
    }

    pub fn block_filters(&self, start: u64, max: usize) -> Option<packed::BlockFilters> {
        if start > self.tip {
            return None;
        }
        let end = std::cmp::min(self.tip, start + max as u64 - 1);
        let c = self.chain;
        let hashes: Vec<Byte32> = (start..=end).map(|n| c.blocks[n as usize].hash()).collect();
        let filters: Vec<packed::Bytes> = (start..=end).map(|n| c.filters[n as usize].clone()).collect();
        Some(packed::BlockFilters::new_builder().start_number(start.pack()).block_hashes(hashes.pack()).filters(filters.pack()).build())
    }

    pub fn block_filter_hashes(&self, start: u64, max: usize) -> Option<packed::BlockFilterHashes> {
        if start > self.tip || start == 0 {
            return None;
        }
        let end = std::cmp::min(self.tip, start + max as u64 - 1);
        let c = self.chain;
        let hashes: Vec<Byte32> = (start..=end).map(|n| c.filter_hashes[n as usize].clone()).collect();
        Some(
            packed::BlockFilterHashes::new_builder()
                .start_number(start.pack())
                .parent_block_filter_hash(c.filter_hashes[start as usize - 1].clone())
                .block_filter_hashes(hashes.pack())
                .build(),
        )
    }

    pub fn block_filter_check_points(&self, start: u64, interval: u64, max: usize) -> packed::BlockFilterCheckPoints {
        let mut cps = vec![];
        let mut n = start;
        while n <= self.tip && cps.len() < max {
            cps.push(self.chain.filter_hashes[n as usize].clone());
            n += interval;
        }
        packed::BlockFilterCheckPoints::new_builder().start_number(start.pack()).block_filter_hashes(cps.pack()).build()
    }
}

pub fn wrap_lc<T: Into<packed::LightClientMessageUnion>>(content: T) -> packed::LightClientMessage {
    packed::LightClientMessage::new_builder().set(content).build()
}

/// v1 responses travel as the v0 union item (compatible encoding with extra fields).
pub fn blocks_proof_v1_msg(v1: &packed::SendBlocksProofV1) -> packed::LightClientMessage {
    wrap_lc(packed::SendBlocksProof::new_unchecked(v1.as_bytes()))
}

pub fn txs_proof_v1_msg(v1: &packed::SendTransactionsProofV1) -> packed::LightClientMessage {
    wrap_lc(packed::SendTransactionsProof::new_unchecked(v1.as_bytes()))
}

pub fn wrap_filter<T: Into<packed::BlockFilterMessageUnion>>(content: T) -> packed::BlockFilterMessage {
    packed::BlockFilterMessage::new_builder().set(content).build()
}

pub fn send_block_msg(block: &packed::Block) -> packed::SyncMessage {
    packed::SyncMessage::new_builder().set(packed::SendBlock::new_builder().block(block.clone()).build()).build()
}

#[allow(dead_code)]
fn _unused(_: fn(&[Byte32]) -> Byte32) {
    let _ = merkle_root;
}
