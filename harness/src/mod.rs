//! lcv — verification harness for ckb-light-client (property-based testing / fuzzing).
//! Usage:
//!   lcv run <Cxx> --tier quick|thorough --seed N --shard i --shards W [--cases N] --out file.json
//!   lcv replay <Cxx> <case.json>
pub mod oracle;
pub mod pbt;
pub mod props;
pub mod sim;

use pbt::{Property, Tier};
use serde_json::Value;

pub fn tmp_root() -> String {
    let d = std::env::var("LCV_TMP").unwrap_or_else(|_| "/dev/shm".into());
    let _ = std::fs::create_dir_all(&d);
    d
}

macro_rules! dispatch {
    ($id:expr, $f:ident, $($args:expr),*) => {
        match $id {
            "C01" => pbt::$f::<props::c01::C01>($($args),*),
            "C02" => pbt::$f::<props::c02::C02>($($args),*),
            "C03" => pbt::$f::<props::c03::C03>($($args),*),
            "C04" => pbt::$f::<props::c04::C04>($($args),*),
            "C05" => pbt::$f::<props::c05::C05>($($args),*),
            "C06" => pbt::$f::<props::c06::C06>($($args),*),
            "C07" => pbt::$f::<props::c07::C07>($($args),*),
            "C09" => pbt::$f::<props::c09::C09>($($args),*),
            "C11" => pbt::$f::<props::c11::C11>($($args),*),
            "C12" => pbt::$f::<props::c12::C12>($($args),*),
            "C13" => pbt::$f::<props::c13::C13>($($args),*),
            "C14" => pbt::$f::<props::c14::C14>($($args),*),
            "C15" => pbt::$f::<props::c15::C15>($($args),*),
            "C16" => pbt::$f::<props::c16::C16>($($args),*),
            "C08" => pbt::$f::<props::c08::C08>($($args),*),
            "C18" => pbt::$f::<props::c18::C18>($($args),*),
            "C10" => pbt::$f::<props::c10::C10>($($args),*),
            "C17" => pbt::$f::<props::c17::C17>($($args),*),
            other => {
                eprintln!("unknown property {}", other);
                std::process::exit(2);
            }
        }
    };
}

/// Entry of the coverage-guided engine (tests/lcvfuzz.rs): LCV_FUZZ_PROP selects the property, LCV_FUZZ_TIER the size class.
pub fn fuzz_entry(data: &[u8]) {
    use std::sync::OnceLock;
    static SEL: OnceLock<(String, Tier)> = OnceLock::new();
    let (id, tier) = SEL.get_or_init(|| {
        pbt::install_quiet_panic_hook();
        let id = std::env::var("LCV_FUZZ_PROP").unwrap_or_else(|_| "C10".into());
        let tier = if std::env::var("LCV_FUZZ_TIER").ok().as_deref() == Some("thorough") { Tier::Thorough } else { Tier::Quick };
        (id, tier)
    });
    dispatch!(id.as_str(), fuzz_one, *tier, data)
}

pub fn fuzz_flush_entry() {
    let id = std::env::var("LCV_FUZZ_PROP").unwrap_or_else(|_| "C10".into());
    dispatch!(id.as_str(), fuzz_flush, )
}

pub fn main() {
    let args: Vec<String> = std::env::args().collect();
    pbt::install_quiet_panic_hook();
    if std::env::var("RUST_LOG").is_ok() {
        let _ = env_logger::try_init();
    }
    let get = |name: &str| -> Option<String> { args.iter().position(|a| a == name).and_then(|i| args.get(i + 1).cloned()) };
    match args.get(1).map(|s| s.as_str()) {
        Some("run") => {
            let id = args[2].as_str();
            let tier = if get("--tier").as_deref() == Some("thorough") { Tier::Thorough } else { Tier::Quick };
            let seed: u64 = get("--seed").and_then(|s| s.parse().ok()).unwrap_or(1);
            let shard: u32 = get("--shard").and_then(|s| s.parse().ok()).unwrap_or(0);
            let shards: u32 = get("--shards").and_then(|s| s.parse().ok()).unwrap_or(1);
            let cases: Option<u32> = get("--cases").and_then(|s| s.parse().ok());
            let v: Value = dispatch!(id, run_worker, tier, seed, shard, shards, cases);
            let text = serde_json::to_string(&v).unwrap();
            match get("--out") {
                Some(p) => std::fs::write(p, text).unwrap(),
                None => println!("{}", text),
            }
        }
        Some("replay") => {
            let id = args[2].as_str();
            let v: Value = dispatch!(id, replay, &args[3]);
            println!("{}", serde_json::to_string_pretty(&v).unwrap());
            if v["result"] == "fail" {
                std::process::exit(1);
            }
        }
        Some("fuzzbytes") => {
            // runs one libFuzzer input (artifact or corpus file) through the coverage-guided entry without libFuzzer
            std::env::set_var("LCV_FUZZ_PROP", &args[2]);
            let data = std::fs::read(&args[3]).expect("input file");
            fuzz_entry(&data);
            fuzz_flush_entry();
            println!("ok");
        }
        _ => {
            eprintln!("usage: lcv run <Cxx> ... | lcv replay <Cxx> <file> | lcv fuzzbytes <Cxx> <libfuzzer input>");
            std::process::exit(2);
        }
    }
}
