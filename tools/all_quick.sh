#!/bin/sh
# all_quick.sh <seed> [tier]: every registered check with VERIF_SEED=<seed>; one summary line per check
S=${1:-1}; T=${2:-quick}
cd /verif
for p in C01 C02 C03 C04 C05 C06 C07 C08 C09 C10 C11 C12 C13 C14 C15 C16 C17 C18; do
  VERIF_SEED=$S ./check $p $T > /tmp/allq-$p.out 2>&1; rc=$?
  echo "$p rc=$rc $(grep -E '^\[check\] C' /tmp/allq-$p.out | tail -1)"
  grep -E "^VIOLATION|signature:" /tmp/allq-$p.out | head -4
done
