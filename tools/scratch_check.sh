#!/bin/sh
# scratch_check.sh <patch.diff|-> <Cxx> [quick|thorough]: runs a check of the CURRENT /verif sources against a scratch worktree of
# /repo HEAD with the given patch applied, from a private copy of /verif (so that nothing under /verif or /repo is touched and a
# run on /repo can go on in parallel). Build output is kept in /verif/harness/target-s.
PATCH=$1; P=$2; T=${3:-quick}
WT=/tmp/wt-s; SV=/tmp/sv
git -C /repo worktree remove --force $WT 2>/dev/null
git -C /repo worktree add --detach $WT HEAD -q || { echo "worktree failed"; exit 2; }
if [ "$PATCH" != "-" ]; then git -C $WT apply "$PATCH" || { echo "patch does not apply"; exit 2; }; fi
mkdir -p $SV
rsync -a --delete --exclude 'harness/target*' --exclude .git --exclude .vendor --exclude replays /verif/ $SV/
mkdir -p $SV/replays $SV/evidence
cd $SV && LCV_REPO=$WT LCV_TARGET_DIR=/verif/harness/target-s LCV_KNOWN=$SV/known_findings.json LCV_VERIF=$SV ./check "$P" "$T" 2>&1 | grep -E "VIOLATION|signature|message|KNOWN-FINDING|\[check\]|^error" | cut -c1-400
