#!/bin/sh
# all_seeds.sh: applies every seeded change in turn and runs the check(s) expected to catch it; writes seeded/<id>/meta.json detected_by
cd /verif
for pair in C01:C01 C02:C02 C03:C03 C04:C04 C05:C04 C05:C05 C06:C06 C07:C07 C08:C08 C09:C09 C10:C10 C11:C11 C12:C12 C13:C13 C14:C14 C15:C15 C16:C16 C17:C17 C18:C18; do
  s=${pair%%:*}; c=${pair##*:}
  tools/try_seed.sh $s $c > /tmp/seedrun-$s-$c.out 2>&1
  rc=$(grep -o "rc=[0-9]*" /tmp/seedrun-$s-$c.out | head -1)
  sig=$(grep "signature:" /tmp/seedrun-$s-$c.out | head -1 | sed 's/ *signature: //')
  echo "$s by $c: $rc $sig"
  python3 - "$s" "$c" "$rc" "$sig" <<'PY'
import json,sys
s,c,rc,sig=sys.argv[1:5]
p='/verif/seeded/%s/meta.json'%s
m=json.load(open(p))
d=m.get('detected_by')
if not isinstance(d,dict): d={}
d[c]=("quick: VIOLATION "+sig) if rc=="rc=1" else ("quick: not caught ("+rc+")")
m['detected_by']=d
json.dump(m,open(p,'w'),indent=1)
PY
done
