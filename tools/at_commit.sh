#!/bin/sh
# at_commit.sh <repo-commit> <Cxx> [quick|thorough]: run a check of the current /verif against an older commit of /repo
# (scratch worktree /tmp/atc-repo, scratch copy of /verif in /tmp/atc-verif; replays are left in /tmp/atc-verif/replays)
C=$1; P=$2; T=${3:-quick}
git -C /repo worktree remove --force /tmp/atc-repo 2>/dev/null
git -C /repo worktree add --detach /tmp/atc-repo "$C" >/dev/null 2>&1 || { echo "worktree failed"; exit 2; }
mkdir -p /tmp/atc-verif
rsync -a --delete --exclude harness/target --exclude .git --exclude evidence --exclude replays /verif/ /tmp/atc-verif/
mkdir -p /tmp/atc-verif/evidence /tmp/atc-verif/replays
rm -f /tmp/atc-verif/replays/*
cd /tmp/atc-verif && LCV_REPO=/tmp/atc-repo LCV_TARGET_DIR=/tmp/atc-verif/harness/target LCV_KNOWN=/tmp/atc-verif/known_findings.json LCV_VERIF=/tmp/atc-verif ./check "$P" "$T" 2>&1 | grep -E "VIOLATION|signature|KNOWN-FINDING|\[check\] C" | cut -c1-300
git -C /repo worktree remove --force /tmp/atc-repo
