#!/bin/sh
# seed_regression.sh [pairs...]: every seeded change (rounds 1-3) against the check(s) expected to catch it, through
# tools/scratch_check.sh (scratch worktree of /repo HEAD + patch, private copy of /verif; /repo itself is not touched).
# Writes /verif/seeded/regression.txt: "<seed dir> <check> caught|MISSED|ERROR <first signature>"
cd /verif
PAIRS="$@"
if [ -z "$PAIRS" ]; then
  for i in C01 C02 C03 C04 C06 C07 C08 C09 C10 C11 C12 C13 C14 C15 C16 C17 C18; do PAIRS="$PAIRS $i:$i"; done
  PAIRS="$PAIRS C05:C04 C05:C12"
  for i in C01 C02 C04 C05 C06 C07 C08 C09 C10 C11 C12 C13 C14 C15 C16 C17 C18; do PAIRS="$PAIRS $i-r2:$i"; done
  PAIRS="$PAIRS C03-r2:C04 C05-r2:C12"
  for i in C01 C02 C05 C06 C08 C11 C12 C16; do PAIRS="$PAIRS $i-r3:$i"; done
  PAIRS="$PAIRS C04-r3:C17 C12-r3:C01"
fi
OUT=/verif/seeded/regression.txt
[ -n "$APPEND" ] || : > $OUT
for pair in $PAIRS; do
  s=${pair%%:*}; c=${pair##*:}
  sh tools/scratch_check.sh /verif/seeded/$s/patch.diff $c quick > /tmp/seedreg-$s-$c.out 2>&1
  sig=$(grep "signature:" /tmp/seedreg-$s-$c.out | head -1 | sed 's/ *signature: //')
  if grep -q "^VIOLATION" /tmp/seedreg-$s-$c.out; then v=caught; elif grep -q "^\[check\] $c quick" /tmp/seedreg-$s-$c.out; then v=MISSED; else v=ERROR; fi
  echo "$s $c $v $sig" >> $OUT
done
echo ALLDONE >> $OUT
