#!/usr/bin/env python3
"""install_seed.py <ID> "<needs to manifest>"  -- copies confirmed sub-agent deliverables into /verif/seeded/<ID>/"""
import json, os, shutil, subprocess, sys
sid, needs = sys.argv[1], sys.argv[2]
prop = sid.split('-')[0]
src = "/tmp/seed/%s/out" % sid
dst = "/verif/seeded/%s" % sid
os.makedirs(dst, exist_ok=True)
shutil.copy(src + "/break.diff", dst + "/patch.diff")
shutil.copy(src + "/demo.diff", dst + "/demo.diff")
shutil.copy(src + "/README.md", dst + "/README.md")
res = open("/tmp/confirm/%s.result" % sid).read()
applies = subprocess.run(["git", "-C", "/repo", "apply", "--check", dst + "/patch.diff"], capture_output=True, text=True)
meta = {
  "breaks_property": prop,
  "needs_to_manifest": needs,
  "origin": "independent sub-agent given only the property text and a scratch worktree",
  "confirmed_by_me": {
     "how": "tools/confirm_seed.sh: scratch worktree of /repo HEAD; (1) demo.diff only -> whole suite passes incl. the demo test; (2) demo.diff + patch.diff -> only the demo test(s) fail, the 115 baseline tests pass",
     "result": res.strip().splitlines(),
  },
  "applies_to_current_repo_head": applies.returncode == 0,
  "detected_by": "see DESIGN.md (seeded-change table)"
}
json.dump(meta, open(dst + "/meta.json", "w"), indent=1)
print(sid, "installed; applies to HEAD:", applies.returncode == 0, applies.stderr.strip()[:200])
