#!/usr/bin/env python3
"""Hand-written sensitivity mutants (DESIGN.md section 6, 'M' lists).

mutants.py gen            regenerate /verif/mutants/<name>.diff from the edit specs below (against /repo HEAD)
mutants.py run [names]    for each mutant: apply it to a scratch worktree (/tmp/mutrepo), run the listed checks from a scratch
                          copy of /verif (/tmp/mutverif, own build dir) with LCV_REPO=/tmp/mutrepo, record caught / missed in
                          /verif/mutants/results.json. Never touches /repo.
"""
import json, os, subprocess, sys, shutil

SLSP = "src/protocols/light_client/components/send_last_state_proof.rs"
LC = "src/protocols/light_client/mod.rs"
PEERS = "src/protocols/light_client/peers.rs"
STORAGE = "src/storage.rs"
BFP = "src/protocols/filter/components/block_filters_process.rs"
SERVICE = "src/service.rs"
SAMPLING = "src/protocols/light_client/sampling.rs"
SBP = "src/protocols/light_client/components/send_blocks_proof.rs"
STP = "src/protocols/light_client/components/send_transactions_proof.rs"
SLS = "src/protocols/light_client/components/send_last_state.rs"
SYNC = "src/protocols/synchronizer.rs"
RELAY = "src/protocols/relayer.rs"
VERIFY = "src/verify.rs"

# name: (file, old, new, [checks that should catch it])
M = {
 "c01-drop-pow-check": (SLSP, "        return_if_failed!(self.protocol.check_pow_for_headers(headers.iter()));\n", "", ["C01"]),
 "c01-drop-chain-root-check": (SLSP, "        return_if_failed!(self.protocol.check_chain_root_for_headers(headers.iter()));\n", "", ["C01"]),
 "c01-mmr-result-ignored": (SLSP, "    if verify_result {\n        trace!(\"passed: verify mmr proof\");\n    } else {", "    if verify_result || true {\n        trace!(\"passed: verify mmr proof\");\n    } else {", ["C01"]),
 "c01-skip-last-n-continuity": (SLSP, "        return_if_failed!(check_continuous_headers(\n            &headers[(reorg_count + sampled_count)..]\n        ));\n", "", ["C01"]),
 "c01-sample-off-by-one": (SLSP, "                } else if total_diff.parent < diff && diff <= total_diff.current {", "                } else if total_diff.parent <= diff && diff <= total_diff.current {", ["C01"]),
 "c01-missing-sample-tolerated": (SLSP, "            if next_difficulty <= previous_total_diff_before_last_n {", "            if next_difficulty < previous_total_diff_before_last_n {", ["C01"]),
 "c01-reorg-count-unchecked": (SLSP, "        if reorg_count != last_n_blocks {", "        if false && reorg_count != last_n_blocks {", ["C01", "C04"]),
 "c03-skip-inputs": (STORAGE, "                                if scripts.contains(&(script.clone(), ScriptType::Lock)) {\n                                    filter_matched = true;\n                                    // delete utxo", "                                if false && scripts.contains(&(script.clone(), ScriptType::Lock)) {\n                                    filter_matched = true;\n                                    // delete utxo", ["C03", "C13"]),
 "c03-update-block-number-off-by-one": (SYNC, "                        .update_block_number(start_number + blocks_count - 1);", "                        .update_block_number(start_number + blocks_count);", ["C03", "C09"]),
 "c04-rollback-without-plus-one": (LC, "                    let rollback_to = to_number + 1;", "                    let rollback_to = to_number;", ["C04"]),
 "c04-rollback-one-block-short": (LC, "                    let rollback_to = to_number + 1;", "                    let rollback_to = to_number + 2;", ["C04"]),
 "c04-no-restore-of-spent-cells": (STORAGE, "                            batch\n                                .put_kv(key, input.previous_output().tx_hash().as_slice())\n                                .expect(\"batch put should be ok\");\n                        };", "                            let _ = key;\n                        };", ["C04"]),
 "c05-tau-too-strict": (SLSP, "                for _ in 0..epochs_switch_count {\n                    end_max = end_max.saturating_mul(&tau_u256);\n                }", "                for _ in 1..epochs_switch_count {\n                    end_max = end_max.saturating_mul(&tau_u256);\n                }", ["C14", "C05"]),
 "c07-quorum-floor": (PEERS, "        let required_peers_count = ((self.get_max_outbound_peers() + 1) / 2) as usize;", "        let required_peers_count = (self.get_max_outbound_peers() / 2).max(1) as usize;", ["C07"]),
 "c07-no-retain": (LC, "                        if count_max != peers_with_data.len() {\n                            peers_with_data.retain(|_, (_, check_points)| {\n                            matches!(check_points.get(index), Some(tmp) if *tmp == cp)\n                        });\n                        }", "", ["C07"]),
 "c09-partial-uses-max": (STORAGE, "                    min_script_block_number.map(|n| n.min(self.get_min_filtered_block_number()))", "                    min_script_block_number.map(|n| n.max(self.get_min_filtered_block_number()))", ["C09", "C03"]),
 "c09-all-keeps-old-scripts": (STORAGE, "                    .for_each(|(key, _value)| {\n                        batch.delete(key).expect(\"batch delete should be ok\");\n                    });\n\n                for ss in scripts {\n                    if min_block_number", "                    .for_each(|(key, _value)| {\n                        let _ = key;\n                    });\n\n                for ss in scripts {\n                    if min_block_number", ["C09"]),
 "c13-desc-without-padding": (SERVICE, "                        vec![0xff; MAX_PREFIX_SEARCH_SIZE - args_len],", "                        vec![0xff; 8],", ["C13"]),
 "c13-block-range-inclusive": (SERVICE, "                if let Some([r0, r1]) = filter_block_range {\n                    if block_number < r0 || block_number >= r1 {\n                        return None;\n                    }\n                }\n\n                last_key = key.to_vec();", "                if let Some([r0, r1]) = filter_block_range {\n                    if block_number < r0 || block_number > r1 {\n                        return None;\n                    }\n                }\n\n                last_key = key.to_vec();", ["C13"]),
 "c13-grouped-break-rule": (SERVICE, "                if tx_with_cells.len() == limit\n                    && tx_with_cells.last_mut().unwrap().transaction.hash != tx_hash.unpack()", "                if tx_with_cells.len() == limit", ["C13"]),
 "c14-split-off-by-one": (SLSP, "            (EstimatedLimit::Max, Self::Unchanged) => {\n                let increased = (n + 1) / 2;", "            (EstimatedLimit::Max, Self::Unchanged) => {\n                let increased = n / 2;", ["C14"]),
 "c14-no-remove-last-epoch": (SLSP, "        let details = self.split_epochs(limit, n, k).remove_last_epoch();", "        let details = self.split_epochs(limit, n, k);", ["C14"]),
 "c17-set-scripts-lock-late": (SERVICE, """        let mut matched_blocks = self.swc.matched_blocks().write().expect("poisoned");
        let scripts = scripts.into_iter().map(Into::into).collect();
        self.swc
            .storage()
            .update_filter_scripts(scripts, command.map(Into::into).unwrap_or_default());
        matched_blocks.clear();""", """        let scripts = scripts.into_iter().map(Into::into).collect();
        self.swc
            .storage()
            .update_filter_scripts(scripts, command.map(Into::into).unwrap_or_default());
        let mut matched_blocks = self.swc.matched_blocks().write().expect("poisoned");
        matched_blocks.clear();""", ["C17"]),
 "c17-send-block-lock-released-before-indexing": (SYNC, """                    assert_eq!(blocks.len(), db_blocks.len());
                    info!(""", """                    assert_eq!(blocks.len(), db_blocks.len());
                    drop(matched_blocks);
                    info!(""", ["C17"], [("""                    self.storage.remove_matched_blocks(start_number);

                    // send more""", """                    self.storage.remove_matched_blocks(start_number);
                    let mut matched_blocks = self.peers.matched_blocks().write().expect("poisoned");

                    // send more""")]),
 "c18-skip-capacity-verifier": (VERIFY, "        self.capacity.verify()?;\n", "", ["C18"]),
 "c18-pool-evicts-newest": (RELAY, "            self.txs.pop_front();", "            self.txs.pop_back();", ["C18"]),
 "c18-pool-limit-plus-one": (RELAY, "        if self.txs.len() > self.limit {", "        if self.txs.len() > self.limit + 1 {", ["C18"]),
 "c18-announce-ignores-peer-memory": (RELAY, "                if peers.insert(peer_id.clone()) {", "                if peers.insert(peer_id.clone()) || true {", ["C18"]),
 "c18-rejected-tx-still-pooled": (SERVICE, """        let cycles = verify_tx(tx.clone(), &self.swc, Arc::clone(&self.consensus))
            .map_err(|e| Error::invalid_params(format!("invalid transaction: {:?}", e)))?;
        self.swc
            .pending_txs()
            .write()
            .expect("pending_txs lock is poisoned")
            .push(tx.clone(), cycles);
""", """        let result = verify_tx(tx.clone(), &self.swc, Arc::clone(&self.consensus))
            .map_err(|e| Error::invalid_params(format!("invalid transaction: {:?}", e)));
        self.swc
            .pending_txs()
            .write()
            .expect("pending_txs lock is poisoned")
            .push(tx.clone(), result.clone().unwrap_or_default());
        result?;
""", ["C18"]),
 "c17-capacity-without-snapshot": (SERVICE, "        let snapshot = self.swc.storage().db.snapshot();\n        let iter = snapshot.iterator(mode).skip(skip);\n\n        let capacity: u64 = iter", "        let snapshot = self.swc.storage().db.clone();\n        let iter = snapshot.iterator(mode).skip(skip);\n\n        let capacity: u64 = iter", ["C17"]),
 "c17-rollback-lock-dropped-before-rollback": (LC, """                    let rollback_to = to_number + 1;
                    info!("rollback to block#{}", rollback_to);
                    self.storage.rollback_to_block(rollback_to);
                    matched_blocks.clear();""", """                    drop(matched_blocks);
                    let rollback_to = to_number + 1;
                    info!("rollback to block#{}", rollback_to);
                    self.storage.rollback_to_block(rollback_to);
                    self.peers.matched_blocks().write().expect("poisoned").clear();""", ["C17"]),
 "c17-block-filters-lock-taken-after-the-batch-is-stored": (BFP, """        let mut matched_blocks = self
            .filter
            .peers
            .matched_blocks()
            .write()
            .expect("poisoned");

        let block_filters = self.message.to_entity();""", """        let block_filters = self.message.to_entity();""", ["C17"], [("""            if matched_blocks.is_empty() {
                if let Some((_start_number, _blocks_count, db_blocks)) =""", """            let mut matched_blocks = self
                .filter
                .peers
                .matched_blocks()
                .write()
                .expect("poisoned");
            if matched_blocks.is_empty() {
                if let Some((_start_number, _blocks_count, db_blocks)) ="""), ("""        } else if matched_blocks.is_empty()
            && self.filter.storage.get_earliest_matched_blocks().is_none()""", """        } else if self
            .filter
            .peers
            .matched_blocks()
            .read()
            .expect("poisoned")
            .is_empty()
            && self.filter.storage.get_earliest_matched_blocks().is_none()""")]),
 "c15-lambda-5": (SAMPLING, "const LAMBDA: u32 = 50;", "const LAMBDA: u32 = 5;", ["C15"]),
 "c15-no-boundary-clamp": (SAMPLING, "        if sample >= self.difficulty_boundary {\n            &self.difficulty_boundary - 1u32\n        } else {\n            sample\n        }", "        sample", ["C15"]),
 "c15-last-n-branch-lt": (LC, "        let content = if last_number - start_number <= last_n_blocks {\n            let last_n_headers = self.storage.get_last_n_headers();", "        let content = if last_number - start_number < last_n_blocks {\n            let last_n_headers = self.storage.get_last_n_headers();", ["C15"]),
}

def sh(*a, **kw):
    return subprocess.run(a, text=True, capture_output=True, **kw)

def gen():
    os.makedirs("/verif/mutants", exist_ok=True)
    wt = "/tmp/mutgen"
    sh("git", "-C", "/repo", "worktree", "remove", "--force", wt)
    r = sh("git", "-C", "/repo", "worktree", "add", "--detach", wt, "HEAD")
    assert r.returncode == 0, r.stderr
    for name, spec in M.items():
        f, old, new, checks = spec[:4]
        extra = spec[4] if len(spec) > 4 else []
        p = os.path.join(wt, f)
        s = open(p).read()
        if s.count(old) != 1 or any(s.count(o) != 1 for o, _ in extra):
            print("SKIP %s: pattern occurs %d times" % (name, s.count(old)))
            continue
        s = s.replace(old, new)
        for o, n in extra:
            s = s.replace(o, n)
        open(p, "w").write(s)
        d = sh("git", "-C", wt, "diff").stdout
        open("/verif/mutants/%s.diff" % name, "w").write(d)
        sh("git", "-C", wt, "checkout", "--", ".")
        print("ok", name)
    sh("git", "-C", "/repo", "worktree", "remove", "--force", wt)

def run(names):
    repo = "/tmp/mutrepo"
    verif = "/tmp/mutverif"
    sh("git", "-C", "/repo", "worktree", "remove", "--force", repo)
    r = sh("git", "-C", "/repo", "worktree", "add", "--detach", repo, "HEAD")
    assert r.returncode == 0, r.stderr
    os.makedirs(verif, exist_ok=True)
    sh("rsync", "-a", "--delete", "--exclude", "harness/target*", "--exclude", ".git", "--exclude", "evidence", "--exclude", "replays", "/verif/", verif + "/")
    os.makedirs(verif + "/evidence", exist_ok=True)
    resfile = "/verif/mutants/results.json"
    results = json.load(open(resfile)) if os.path.exists(resfile) else {}
    env = dict(os.environ, LCV_REPO=repo, LCV_TARGET_DIR=verif + "/harness/target", LCV_KNOWN=verif + "/known_findings.json", LCV_VERIF=verif)
    for name in names:
        f, old, new, checks = M[name][:4]
        a = sh("git", "-C", repo, "apply", "/verif/mutants/%s.diff" % name)
        if a.returncode != 0:
            print(name, "does not apply", a.stderr[:200]); continue
        for c in checks:
            r = sh(verif + "/check", c, "quick", env=env, cwd=verif)
            viol = [l for l in r.stdout.splitlines() if l.startswith("VIOLATION") or l.strip().startswith("signature:")]
            results.setdefault(name, {})[c] = {"rc": r.returncode, "caught": r.returncode == 1, "lines": viol[:4]}
            print(name, c, "rc", r.returncode, viol[:2], flush=True)
            json.dump(results, open(resfile, "w"), indent=1)
        sh("git", "-C", repo, "checkout", "--", ".")
    sh("git", "-C", "/repo", "worktree", "remove", "--force", repo)

if __name__ == "__main__":
    if sys.argv[1] == "gen":
        gen()
    else:
        run(sys.argv[2:] or list(M))
