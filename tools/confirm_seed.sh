#!/bin/sh
# Confirms sub-agent deliverables: usage SEED_SRC=/tmp/seed2keep confirm_seed.sh <ID>...   (results in /tmp/confirm/<ID>.result)
# SEED_SRC/<ID>/{demo.diff,break.diff} (default: /tmp/seed/<ID>/out)
# For each ID: scratch worktree of /repo HEAD; (1) demo.diff only -> whole suite passes (incl. demo tests);
# (2) demo.diff + break.diff -> only the demo tests fail, the 115 baseline tests pass.
mkdir -p /tmp/confirm
export CARGO_TARGET_DIR=/tmp/confirm/target
export TMPDIR=/tmp/confirm/tmp
mkdir -p $TMPDIR
[ -d $CARGO_TARGET_DIR ] || cp -a /repo/target $CARGO_TARGET_DIR
for ID in "$@"; do
  OUT=${SEED_SRC:+$SEED_SRC/$ID}; OUT=${OUT:-/tmp/seed/$ID/out}
  EXTRA=""; grep -q "feature = \"verif\"" $OUT/demo.diff 2>/dev/null && EXTRA="--features verif"; [ "$ID" = "C17" ] && EXTRA="--features verif"
  OUT=${SEED_SRC:+$SEED_SRC/$ID}; OUT=${OUT:-/tmp/seed/$ID/out}
  WT=/tmp/confirm/wt-$ID
  git -C /repo worktree remove --force $WT 2>/dev/null
  git -C /repo worktree add --detach $WT HEAD -q || { echo "$ID worktree failed" > /tmp/confirm/$ID.result; continue; }
  cd $WT
  R=/tmp/confirm/$ID.result; : > $R
  if ! git apply $OUT/demo.diff 2>>$R; then echo "demo.diff does not apply" >> $R; cd /; git -C /repo worktree remove --force $WT; continue; fi
  cargo test --workspace --no-fail-fast --offline $EXTRA > /tmp/confirm/$ID.demo.log 2>&1
  find $TMPDIR -mindepth 1 -delete 2>/dev/null
  echo "DEMO-ONLY: $(grep -E '^test result' /tmp/confirm/$ID.demo.log | head -1)" >> $R
  if ! git apply $OUT/break.diff 2>>$R; then echo "break.diff does not apply" >> $R; cd /; git -C /repo worktree remove --force $WT; continue; fi
  cargo test --workspace --no-fail-fast --offline $EXTRA > /tmp/confirm/$ID.both.log 2>&1
  find $TMPDIR -mindepth 1 -delete 2>/dev/null
  echo "DEMO+BREAK: $(grep -E '^test result' /tmp/confirm/$ID.both.log | head -1)" >> $R
  echo "FAILED TESTS:" >> $R
  grep -E '^test .* FAILED' /tmp/confirm/$ID.both.log >> $R
  grep -E "warning: unused|^warning" /tmp/confirm/$ID.both.log | sort | uniq -c | head -5 >> $R
  cd /
  git -C /repo worktree remove --force $WT
done
echo ALLDONE >> /tmp/confirm/done.flag
