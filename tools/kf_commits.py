#!/usr/bin/env python3
"""Refreshes the commit hashes of the `fixed` entries in known_findings.json from the subjects of /repo's fix: commits."""
import json, re, subprocess
SUBJ = {
 "D7-difficulty": "fix: verify_tau/verify_total_difficulty reject malformed",
 "D7-genesis-epoch": "fix: accept the genesis epoch",
 "D2a": "fix: filter_block resolves an input",
 "D2b": "fix: add_fetched_tx keeps",
 "D16": "fix: filter_block skips scripts",
 "D6": "fix: set_scripts partial/delete rewinds",
 "D17": "fix: BlockFilters processing does not credit",
 "D3": "fix: commit_prove_state detects a fork",
 "D19": "fix: rollback_to_block skips the history",
 "D20": "fix: a reorg removes the pending matched blocks",
 "D1": "fix: SendBlock checks the body",
 "D10": "fix: a rejected blocks/transactions proof",
 "D5a": "fix: remove a matched-blocks record only after",
 "D5b": "fix: write the last state and the last n headers atomically",
 "D5c": "fix: apply set_scripts to the storage atomically",
 "D5d": "fix: mark the storage as initialized only after",
 "D5e": "fix: rollback_to_block does not skip a script",
 "D5f": "fix: store the matched blocks of a batch and move",
 "D25": "fix: a fork rolls the index back to the fork point",
 "D26": "fix: a rollback does not restore a cell",
 "D27": "fix: a verifiable header whose total difficulty overflows",
 "D28": "fix: BlockFilterHashes with hostile numbers",
 "D29": "fix: verify_mmr_proof rejects numbers",
 "D30": "fix: the last-n range check of a proof",
 "D31": "fix: reject a transactions merkle proof with index",
 "D32": "fix: the sampled / last-n split of a proof",
 "D33": "fix: verify the extra fields of compatibly parsed",
 "D8": "fix: the child fast path checks the chain root",
 "D24": "fix: do not prepend overlapping old headers",
}
log = subprocess.check_output(['git', '-C', '/repo', 'log', '--format=%h %s'], text=True).splitlines()
def h(prefix):
    for l in log:
        if l.split(' ', 1)[1].startswith(prefix):
            return l.split()[0]
    return None
kf = json.load(open('/verif/known_findings.json'))
for f in kf['findings']:
    if f.get('status') == 'fixed' and f.get('id') in SUBJ:
        new = h(SUBJ[f['id']])
        if new and new != f.get('commit'):
            old = f.get('commit') or ''
            f['commit'] = new
            f['what'] = re.sub(r'(fixed: property=C\d+ )\S+', lambda m: m.group(1) + new, f['what'])
json.dump(kf, open('/verif/known_findings.json', 'w'), indent=1)
print("ok")
