#!/usr/bin/env python3
"""Regenerates MANIFEST.json from the table below (keeps it valid at all times)."""
import json, subprocess, os
VERIF = os.path.dirname(os.path.dirname(os.path.abspath(__file__)))
props = {json.loads(l)["id"]: json.loads(l) for l in open(os.path.join(VERIF, "properties.jsonl"))}

CHECKS = {
 "C18": dict(cat="exploration", technique="stateful model-based property testing: transactions valid by construction or with exactly one known mutation, differential cycle count against ckb-script run on the harness's own resolution, insertion-ordered pool model capped at 64, announcement history invariant",
   text="Histories of send_transaction / estimate_cycles (valid or singly mutated transactions over indexed and pending cells, bursts beyond the pool limit), get_transaction of accepted / rejected / evicted / unknown hashes, relay connects / disconnects / timers and GetRelayTransactions. Ok iff valid by construction with the expected cycles; estimate stores nothing; rejected and evicted transactions are unknown, never announced, never served; the pool follows the model; each (peer, hash) is announced at most once.",
   note="Scripts: always-success plus a hand-assembled witness-gate lock (verdict depends on witnesses[0]); pool members are also re-submitted with other witnesses.", ref="6/C18"),
 "C10": dict(cat="exploration", technique="structure-aware fuzzing driven by proptest: honest answers and unsolicited honest-format messages of every union variant with fixed-size fields overwritten in place by boundary values (field offsets found by walking the molecule readers), vector-level mutations, recomputed commitments, truncations / bit flips / random bytes; panic oracle (catch_unwind, overflow checks on) around every handler call",
   text="Generated worlds (Eaglesong or Dummy PoW) are driven into a peer-state class with a chosen kind of request in flight; then 1..4 hostile inputs on the light-client, filter, sync and relay protocols, each followed by all timers, then honest traffic and a restart. No handler call may panic except the documented long-fork abort.",
   note="Fixed by this check: D27 (total difficulty overflow), D28 (BlockFilterHashes arithmetic / slices), D29 (MMR library arithmetic on hostile digests), D30 (last-n range check).", ref="6/C10"),
 "C17": dict(cat="exploration", technique="schedule-controlled concurrency testing: two real threads, the harness parks operation A before each of its storage writes in turn (write hook in pause mode) and runs operation B meanwhile; differential oracle against both serial orders on identical generated worlds, then model-based convergence check; progress watchdog for deadlocks",
   text="Generated mid-sync worlds with requests in flight x ordered pairs (A, B) of operations that run on different threads in the client (set_scripts on an RPC thread; BlockFilters / BlockFilterHashes / CheckPoints on the filter protocol; SendBlock on the sync protocol; SendLastStateProof with or without rollback and SendBlocksProof on the light-client protocol; timers) x every write boundary k of A. The final store and in-memory matched blocks must equal the serial run A;B or B;A; if they equal neither, the script set must be a serial one and the sync must still converge to the reference index. No pair may stop making progress for 30 s.",
   note="Readers: a looping get_cells_capacity during a rollback-and-tip-update proof must only see states that exist at the proof's write boundaries. The snapshots of get_cells / get_transactions have no observable two-write inconsistency and are not decided.", ref="6/C17"),
 "C08": dict(cat="exploration", technique="fault injection over generated histories: crash (panic from the write hook) before the k-th storage write, restart from the same store, model-based comparison with the reference index; failures reproduced by a crash at the handler's boundaries are not attributed to the torn operation",
   text="Generated sync histories (first start, set_scripts of all kinds, deliveries, ticks, growth, fetch RPCs, restarts, fork switches) with up to 3 crash points drawn over the storage writes of the crash-free run; one history in eight tries every write point. After each crash the client is rebuilt from the store. Every start must succeed, an interrupted set_scripts is applied or not applied, and after a fair drain the index RPC answers equal the reference index (what the crash-free run, executed first, produces).",
   note="Fixed by this check: D5a-D5e (five crash windows). D20 (C04) histories are excluded by a manifest test.", ref="6/C08"),
 "C16": dict(cat="exploration", technique="stateful property-based testing with a per-hash status model (path check), genuineness of every (transaction, block) pair, and a quiescence check for lost fetches",
   text="Histories of fetch_header / fetch_transaction / get_transaction over on-chain, fork-only and non-existent hashes with fetch / refresh ticks, timeouts, honest answers in any order, corrupted answers (ban), disconnects, growth, a reorg and filter-sync progress. Every RPC answer must follow the status model, fetched data must be byte-identical to the chain's, every committed (transaction, block hash) pair must be real and its header served, and after a fair drain no requested on-chain hash may remain unfetched.",
   note="Known finding D9 (transaction -> block association by height after a reorg). Fixed by this check: D10 (fetch lost after a rejected answer).", ref="6/C16"),
 "C06": dict(cat="exploration", technique="property-based mutation testing of BlockFilters answers (13 typed mutators x sender role x batch position) with an authenticity oracle on the accepted prefix and the reference index after an honest finish",
   text="With a quorum of honest proven peers (optionally one more proven peer serving wrong filter hashes) an in-flight GetBlockFilters is answered with mutated filter bytes, shifted start, unequal counts or substituted block hashes by the asked, another or an unproven peer. The filtered height may only advance over filters identical to the chain's, listed hashes of blocks with script activity must be the chain's block at that height, and after an honest finish the reference index must hold.",
   note="Known finding D4 (block hashes unauthenticated; 6 signatures) tolerated and ends the history.", ref="6/C06"),
 "C02": dict(cat="exploration", technique="property-based mutation testing of SendBlock / SendBlocksProof / SendTransactionsProof answers (typed mutators, v0 and v1 shapes, three sender roles) with a genuineness oracle over everything the RPC serves and the reference index after an honest finish",
   text="With GetBlocks / GetBlocksProof / GetTransactionsProof in flight (mid-sync, fetch_header / fetch_transaction issued), 1..4 attacks answer a request honestly, unsolicited, or with one of 24 mutations, from the asked, another or an unproven peer. After every attack every cell, history entry, header and (transaction, block) pair served must be byte-identical to the proven chain's; after finishing the sync honestly the reference index must hold (a forged body that was indexed shows up as a phantom or missing cell).",
   note="S5: witnesses of fetched transactions cannot be authenticated by the protocol. Fixed by this check: D1 (SendBlock body not checked against the header).", ref="6/C02"),
 "C12": dict(cat="exploration", technique="stateful property-based testing with forged-header generators (re-mined, self-consistent commitments) and a ground-truth registry; invariant over the history of the stored (tip, total difficulty, last-N) triple",
   text="Histories over up to 4 honest / deviating peers on a main chain and a competing fork: answers in any order, growth, restarts, children of the proven header with forged chain roots (inflated, deflated, wrong MMR root, other parent), proofs with a forged last header. After every event a change of the stored triple must be to a currently proven header, strictly heavier, with the TRUE cumulative difficulty, and last-N must be the true ancestor chain; restart reproduces the triple; finally honest growth must be able to move the tip.",
   note="Forged headers pass PoW and their own chain-root commitment by construction. Fixed by this check: D8 (child fast path), D24 (last-N merge).", ref="6/C12"),
 "C11": dict(cat="exploration", technique="model-based (stateful) property-based testing: generated event sequences stepped in lock-step against a reference model of the peer state diagram plus history invariants",
   text="Sequences of up to 40 events (connect, disconnect, refresh/fetch ticks, clock steps at the 8 s / 60 s boundaries, solicited / stale / unsolicited / corrupted proofs, five kinds of last-state announcements, fetch requests) for 1..3 peers; after every event each peer's state must be in the model's allowed set and the invariants I1-I4 (proof only for the outstanding request, proof never discarded by a last-state update, exactly the expired peers disconnected, disconnect leaves nothing but re-queued fetches) must hold.",
   note="Bounded sequences; honest content taken from a small mined chain so that validity is controlled by construction.", ref="6/C11"),
 "C01": dict(cat="exploration", technique="property-based mutation testing of honest responses (typed structural mutators + byte-level) against an independent validity predicate and a byte-for-byte trusted-state snapshot",
   text="The client builds its own request through the real exchange (random FlyClient samples, seeded), the honest SendLastStateProof is computed by the simulated full node and one of 26 structural mutations (optionally re-mined / re-committed so that deeper checks are reached) or a byte-level mutation is delivered in three peer situations. If the trusted state changed the delivered message must satisfy the independent validity predicate; if it does not, the state must be unchanged byte for byte and no bogus header may be served.",
   note="Trusted base: registry-based predicate V (errs towards valid), honest server model. Exploration over chain x start point x last_n x sample set x mutation; no exhaustiveness.", ref="6/C01"),
 "C07": dict(cat="exploration", technique="stateful property-based testing against a reference model of quorum agreement (invariants over the history: monotone, append-only, quorum-backed, progress, ban)",
   text="Generated peer populations (honest, lone deviators, two colluding groups, different vector lengths) and generated schedules of chunked BlockFilterCheckPoints messages, refresh ticks, connects, disconnects and restarts drive the real handler and finalize_check_points on a real store; after every step the stored vector may only grow, every new final value needs a quorum that agreed on all indices since the previous final one, agreement of a quorum cannot be blocked by fewer than quorum others, contradicting peers are banned.",
   note="Peers proven via mock_prove_state; max_outbound 1..6.", ref="6/C07"),
 "C13": dict(cat="exploration", technique="property-based testing with metamorphic / relational oracles over the query API (pagination, order reversal, filter-as-predicate, grouping, capacity) plus a differential against the generating chain",
   text="For generated index contents and generated queries the answers must satisfy: paging yields every entry once in key order independent of the limit, desc = reverse(asc), a filtered answer = the unfiltered one restricted by a predicate written from the documentation, grouped = ungrouped grouped by transaction, capacity = sum of the cells + stored tip, unfiltered = the chain's live cells of all registered scripts sharing the prefix.",
   note="S2/S3 scoping; oracle predicates are re-derived from the README / ckb-indexer documentation, not from service.rs.", ref="6/C13"),
 "C04": dict(cat="exploration", technique="stateful property-based testing of fork switches (generated fork depth / moment / restart / reconnect) against the reference index of the new branch; documented long-fork abort checked by catch_unwind",
   text="Branch A is synced fully or mid-way, then all honest peers move to a heavier branch B forking below / at / above last_n; short forks must end in the goal state with the reference index of B and no record of an abandoned block, long forks must leave the store untouched until the documented panic. Exploration over fork depth x sync moment x schedule.",
   note="Generator respects depth < check point interval (production relation interval >> last_n). Known findings D21, D22a/b, D23 tolerated by signature.", ref="6/C04"),
 "C03": dict(cat="exploration", technique="stateful property-based testing: generated chains + schedules incl. user RPC calls, real client synced against the simulated network, answers compared with an independent reference index",
   text="Generated UTXO histories (same-block chains, typed cells, prefix-sharing scripts) are synced through generated schedules interleaving fetch_transaction / fetch_header / set_scripts / restarts; after a fair drain get_cells / get_transactions / get_cells_capacity must equal the simulator's own reference index (complete for in-range activity, exact for everything in range). Exploration, not exhaustive.",
   note="Scoping S1 (don't-care before a script's start). Trusted base: honest server model and the reference index (written from the chain, shares no code with the client).", ref="6/C03"),
 "C09": dict(cat="exploration", technique="stateful property-based testing with a README model of the script set; invariants checked after every call and every step, reference index at the end",
   text="Schedules dense in set_scripts(all|partial|delete) issued at every kind of moment of an ongoing sync (pending / partly downloaded matched blocks). After each call the script set must equal the documented model and nothing may stay pending; after every step no script may be reported as filtered beyond a block whose in-range activity is not indexed; after the drain the C03 oracle holds.",
   note="Same trusted base as C03; progress numbers of unmentioned scripts may lag (read from the code), only over-claims are violations.", ref="6/C09"),
 "C05": dict(cat="exploration", technique="stateful property-based testing (proptest-generated chains and schedules) of the real client against a simulated honest network; oracle = no ban / only documented timeouts / fair drain reaches the heaviest tip + reference index",
   text="Generated chains (per-epoch difficulty within tau, 1..300 quick / ..2500 thorough blocks, Eaglesong-mined) are synced end to end by the unmodified handlers through generated schedules (delivery order, ticks, growth, restarts, peers at different heights, H3-seeded samples). Any ban or non-timeout disconnect of an honest peer, or a quiescent state that is not the goal, is a violation. Exploration of a very large history space, no exhaustiveness.",
   note="Trusted base: the re-implemented honest server (DESIGN 4.2). Known findings D12 (e2e), D14, D15 tolerated by signature and end the history; forks are exercised in C04.", ref="6/C05"),
 "C14": dict(cat="exploration", technique="property-based testing (proptest) + exhaustive small-grid enumeration against a constructive legal-history oracle",
   text="Generated and exhaustively enumerated legal epoch histories must be accepted (completeness), 8 constructed illegal classes must be rejected, arbitrary numbers must not abort; a bounded search, not a proof. Right level: the property is a for-all over numbers with a closed-form oracle.",
   note="Oracle = constructive legal histories under both readings of tau + free-end envelope; harness built with rustc 1.95, overflow-checks on; known finding D12 (two signatures) tolerated, any other rejection of a legal history is a violation.", ref="6/C14"),
 "C15": dict(cat="exploration", technique="property-based testing (proptest) of the real request builder on a real store, FlyClient bound recomputed by the oracle",
   text="Every generated (start, last, difficulties, last_n, prove state, stored last-N) configuration is fed to the real build_prove_request_content(_from_genesis); the request must satisfy the well-formedness invariants and draw at least the recomputed FlyClient sample count.",
   note="Sample count judged on RNG draws (hook H3); impossible last states (difficulty gain < block gain) labelled, not judged; known finding D13 tolerated.", ref="6/C15"),
}
NA_REASON = "check not built yet in this round (planned in DESIGN.md section 6); no claim is made"

# round 2 (DESIGN.md section 11): additions to the texts above
ROUND2_TEXT = {
 "C01": " Round 2: a peer which owns the real chain may also choose WHICH genuine headers it reveals and regenerate a valid MMR proof for exactly that set (shape-only deviations: dropped samples, tail not reaching the boundary block or not ending at the parent of the last header, truncated reorg section); this decides the shape conditions on their own. Round 3: the requested last header echoed with the parent chain root, headers and proof of a competing branch of equal total difficulty.",
 "C02": " Round 3: two requested transactions of different blocks answered with ONE genuine filtered block into which the other transaction is smuggled (made-up tree index placed according to the proof library's pairing, junk lemma, or no index at all), after a scripted set-up that puts both hashes into one GetTransactionsProof.",
 "C05": " Round 2: after every step the adopted tip may not move back to a lighter header (peers at different heights, child fast path of a lagging peer). Round 3: the simulated chain has a real MMR activation boundary (no chain root commitment up to and including the first block of the activation epoch).",
 "C06": " Round 2: also an unsolicited authentic batch with another start number delivered after a restart while a matched-blocks record is pending in the store and not yet recovered into memory. Round 3: the substituted hash may be a header the peer has announced but not proven; after a BlockFilters delivery no matched block may be flagged proved unless it is some peer's proven header.",
 "C11": " Round 2: one case in four starts with a scripted timeline (an unanswered fetch grows old while the last state is refreshed and a younger request is pending; generated offsets around the 60 s boundary), followed by random events.",
 "C12": " Round 2: also the three-message sequence proof, forged unproven sibling (recorded as last state), child of the proven header forged to agree with the sibling. Round 3: a pending proof request answered with a complete valid proof of the competing branch under the requested header.",
 "C16": " Round 2: one case in seven requests more than 1000 hashes at once (several GetBlocksProof / GetTransactionsProof per round); after the fair drain no requested hash, on chain or not, may still be 'fetching' without a request in flight.",
 "C18": " Round 2: also the same out point in two inputs with different mature since values.",
}
ROUND2_NOTE = {
 "C02": " Fixed by this check in round 3: D36 (merkle-cbt drops a sibling-less node: a made-up index let an uncommitted transaction pass the transactions Merkle proof).",
 "C01": " Fixed by this check in round 2: D34 (sampled proof whose last-n section ends before the tip), D35 (last-n section starting after the boundary block).",
}
for _pid, _c in CHECKS.items():
    _c["text"] += ROUND2_TEXT.get(_pid, "")
    _c["note"] += ROUND2_NOTE.get(_pid, "")
    _c["technique"] += "; the thorough tier adds a coverage-guided stage (libFuzzer with sancov counters over the client's code, its input used as the entropy of the same proptest strategy, same oracle, failures shrunk with the value tree)"

hooks_commits = subprocess.check_output(["git", "-C", "/repo", "log", "--format=%h %s"], text=True).splitlines()
hook_commits = [l.split()[0] for l in hooks_commits if l.split(" ", 1)[1].startswith("verif hook")]
m = {
 "version": 1,
 "setup_cmd": "sh /verif/setup.sh",
 "hooks": {
   "guard": "cargo feature `verif` (#[cfg(feature = \"verif\")])",
   "enable": "the harness crate /verif/harness compiles /repo/src/*.rs in place (#[path]) with its own feature `verif` on: cargo build --profile verif --test lcv (done by ./check)",
   "baseline_off_cmd": "cd /repo && export TMPDIR=$(mktemp -d /tmp/lcbase.XXXXXX) && cargo test --workspace --no-fail-fast --offline; rc=$?; rm -rf $TMPDIR; exit $rc",
   "source_commits": hook_commits,
   "add_only": True,
 },
 "engines": [
   {"name": "lcv", "path": "/verif/harness", "serves_properties": sorted(CHECKS), "kind_free_text": "Rust harness binary: proptest TestRunner driven from main over a deterministic simulator of chain, peers, network and clock talking to the unmodified handlers; sharded over 14 worker processes by ./check"},
   {"name": "lcvfuzz", "path": "/verif/harness (tests/lcvfuzz.rs, built by tools/build_fuzz.sh into harness/target-fuzz)", "serves_properties": sorted(CHECKS), "kind_free_text": "coverage-guided engine: one libFuzzer target for all properties; the fuzzer's bytes are the entropy (proptest PassThrough RNG, fork patched) of the property's own strategy, the case runs through the property's own oracle; 14 jobs with -runs fixed per property; used by ./check <Cxx> thorough and ./check <Cxx> fuzz"},
 ],
 "checks": [],
 "not_applicable": [],
 "notes": "Known findings and fixed defects: /verif/known_findings.json. Replay: ./check <Cxx> --replay <file>. Exit 2 = machinery failure (never a verdict). Seeded changes from independent sub-agents: /verif/seeded/<id>/ (round 1) and /verif/seeded/<id>-r2/ (round 2), see DESIGN.md 10.5 and 11.3. LCV_NO_FUZZ=1 skips the coverage-guided stage of the thorough tier.",
}
for pid in sorted(props):
    if pid in CHECKS:
        c = CHECKS[pid]
        m["checks"].append({
          "property_id": pid,
          "quick_cmd": "./check %s quick" % pid,
          "thorough_cmd": "./check %s thorough" % pid,
          "evidence_file": "/verif/evidence/%s.json" % pid,
          "replay_cmd_template": "./check %s --replay {path}" % pid,
          "engine": "lcv",
          "level_claimed": {"category": c["cat"], "text": c["text"], "design_ref": "DESIGN.md " + c["ref"]},
          "level_note": c["note"],
          "technique": c["technique"],
        })
    else:
        m["not_applicable"].append({"property_id": pid, "reason": NA_REASON})
json.dump(m, open(os.path.join(VERIF, "MANIFEST.json"), "w"), indent=1)
print("checks:", [c["property_id"] for c in m["checks"]], "n/a:", len(m["not_applicable"]))
