import os, sys, hashlib, json, glob
out = sys.argv[1]
os.makedirs(out, exist_ok=True)
reg = os.path.expanduser('~/.cargo/registry')
n=0
for srcroot in sorted(glob.glob(reg+'/src/*')):
    h = os.path.basename(srcroot)
    for pkg in sorted(os.listdir(srcroot)):
        p = os.path.join(srcroot, pkg)
        if not os.path.isdir(p): continue
        d = os.path.join(out, pkg)
        if os.path.exists(d): continue
        crate = os.path.join(reg, 'cache', h, pkg + '.crate')
        if not os.path.exists(crate): continue
        sha = hashlib.sha256(open(crate,'rb').read()).hexdigest()
        os.makedirs(d)
        for e in os.listdir(p):
            if e == '.cargo-ok': continue
            os.symlink(os.path.join(p, e), os.path.join(d, e))
        json.dump({"files": {}, "package": sha}, open(os.path.join(d, '.cargo-checksum.json'), 'w'))
        n+=1
print("vendored", n)
