#!/bin/sh
# all_seeds_r2.sh [pairs...]: like all_seeds.sh for the second round of seeded changes (seeded/<id>-r2); pair = <seed dir>:<check>
cd /verif
PAIRS="$@"
[ -z "$PAIRS" ] && PAIRS="C15-r2:C15 C14-r2:C14 C12-r2:C12 C11-r2:C11 C13-r2:C13 C09-r2:C09 C16-r2:C16 C06-r2:C06 C03-r2:C03 C07-r2:C07 C01-r2:C01 C02-r2:C02 C10-r2:C10 C05-r2:C05 C05-r2:C12 C08-r2:C08 C04-r2:C04 C17-r2:C17 C18-r2:C18"
for pair in $PAIRS; do
  s=${pair%%:*}; c=${pair##*:}
  [ -f seeded/$s/patch.diff ] || { echo "$s: no patch"; continue; }
  tools/try_seed.sh $s $c > /tmp/seedrun-$s-$c.out 2>&1
  rc=$(grep -o "rc=[0-9]*" /tmp/seedrun-$s-$c.out | head -1)
  sig=$(grep "signature:" /tmp/seedrun-$s-$c.out | head -1 | sed 's/ *signature: //')
  echo "$s by $c: $rc $sig"
done
