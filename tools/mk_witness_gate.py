#!/usr/bin/env python3
"""Assembles harness/src/sim/witness_gate.bin: a minimal RV64 ELF for CKB-VM.

    addi sp, sp, -32
    li   t0, 8 ; sd t0, 0(sp)        # *len = 8
    addi a0, sp, 8                   # buffer
    mv   a1, sp                      # &len
    li   a2, 0 ; li a3, 0 ; li a4, 1 # offset 0, index 0, source = input
    li   a7, 2074 ; ecall            # ckb_load_witness
    bnez a0, fail
    lbu  a0, 8(sp) ; li a7, 93 ; ecall   # exit(first byte of witness 0)
fail:
    li   a0, 1 ; li a7, 93 ; ecall
"""
import struct, sys
def I(imm, rs1, f3, rd, op): return ((imm & 0xfff) << 20) | (rs1 << 15) | (f3 << 12) | (rd << 7) | op
ins = [
 I(-32, 2, 0, 2, 0x13), I(8, 0, 0, 5, 0x13), (5 << 20) | (2 << 15) | (3 << 12) | 0x23,
 I(8, 2, 0, 10, 0x13), I(0, 2, 0, 11, 0x13), I(0, 0, 0, 12, 0x13), I(0, 0, 0, 13, 0x13), I(1, 0, 0, 14, 0x13),
 I(1037, 0, 0, 17, 0x13), (17 << 20) | (17 << 15) | (17 << 7) | 0x33, 0x73,
 (10 << 15) | (1 << 12) | (8 << 8) | 0x63,
 I(8, 2, 4, 10, 0x03), I(93, 0, 0, 17, 0x13), 0x73,
 I(1, 0, 0, 10, 0x13), I(93, 0, 0, 17, 0x13), 0x73,
]
code = b''.join(struct.pack('<I', x) for x in ins)
total = 64 + 56 + len(code)
eh = b'\x7fELF' + bytes([2, 1, 1, 0]) + bytes(8) + struct.pack('<HHIQQQIHHHHHH', 2, 243, 1, 0x10000 + 120, 64, 0, 0, 64, 56, 1, 64, 0, 0)
ph = struct.pack('<IIQQQQQQ', 1, 5, 0, 0x10000, 0x10000, total, total, 0x1000)
out = sys.argv[1] if len(sys.argv) > 1 else '/verif/harness/src/sim/witness_gate.bin'
open(out, 'wb').write(eh + ph + code)
