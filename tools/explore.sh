#!/bin/sh
# explore.sh <Cxx> <cases> <seed> [shards]: exploration run that records every failure signature (never used by registered checks)
P=$1; N=$2; S=$3; W=${4:-12}
/verif/check build >/dev/null 2>&1 || { echo "build failed"; exit 2; }
BIN=$(ls -t /verif/harness/target/verif/deps/lcv-* | grep -v '\.d$' | head -1)
rm -f /tmp/explore-$P-*.json
for sh in $(seq 0 $((W-1))); do
  LCV_TOLERATE_ALL=1 $BIN run $P --cases $N --shards $W --shard $sh --seed $S --out /tmp/explore-$P-$sh.json 2>/tmp/explore-$P-$sh.err &
done
wait
python3 - "$P" <<'PY'
import json,glob,sys
from collections import Counter
P=sys.argv[1]
lab=Counter(); known={}; ev=0; nt=set(); wall=0
for f in glob.glob('/tmp/explore-%s-*.json'%P):
    v=json.load(open(f)); ev+=v['evaluations']; nt.update(v['nontrivial']); wall=max(wall,v['wall_s'])
    for k,n in v['labels'].items(): lab[k]+=n
    for k in v['known']:
        e=known.setdefault(k['signature'],[0,k['message'],k['case']]); e[0]+=k['count']
    for fl in v['failures']: print('FAIL',fl['signature'],fl['message'][:1500])
print('evaluations',ev,'distinct_nontrivial',len(nt),'wall',round(wall,1))
print(json.dumps(dict(lab),indent=0))
for k,(n,m,c) in sorted(known.items()): print('KNOWN',n,k,'|',m[:1400]); print()
PY
