#!/bin/sh
# all_thorough.sh <seed>: every thorough tier in turn (hours); one line per check in /tmp/thorough.out
S=${1:-1}
cd /verif
for p in ${LCV_LIST:-C15 C14 C13 C12 C11 C07 C06 C09 C03 C02 C16 C18 C17 C05 C04 C10 C01 C08}; do
  t0=$(date +%s)
  VERIF_SEED=$S ./check $p thorough > /tmp/thorough-$p.out 2>&1; rc=$?
  echo "$p rc=$rc $(( $(date +%s) - t0 ))s $(grep -E '^\[check\] C' /tmp/thorough-$p.out | tail -1)"
  grep -E "^VIOLATION|signature:" /tmp/thorough-$p.out | head -6
done
