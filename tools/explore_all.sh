#!/bin/sh
# explore_all.sh <seed> <factor>: tolerate-all exploration of every property with factor x the quick case count
S=${1:-101}; F=${2:-8}
cd /verif
for spec in C04:10000 C08:2500 C03:1200 C09:1400 C05:1400 C16:12000 C02:4000 C01:4200 C06:1500 C07:12000 C11:16000 C12:3500 C13:9000 C17:5000 C18:6000 C10:20000 C14:120000 C15:40000; do
  p=${spec%%:*}; n=${spec##*:}
  tools/explore.sh $p $((n*F)) $S 14 > /tmp/expl-$p.out 2>&1
  echo "$p $(grep -E '^evaluations' /tmp/expl-$p.out)"; grep -E "^KNOWN|^FAIL" /tmp/expl-$p.out | cut -c1-260
  mkdir -p /tmp/expl-cases/$p; cp /tmp/explore-$p-*.json /tmp/expl-cases/$p/ 2>/dev/null
done
