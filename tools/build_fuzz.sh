#!/bin/sh
# build_fuzz.sh: builds the coverage-guided engine (harness/tests/lcvfuzz.rs) with sancov instrumentation.
#  - a package is generated under harness/target-fuzz/pkg from harness/Cargo.toml (same dependencies, same lock file);
#  - proptest is replaced ([patch.crates-io]) by a copy of the cached source with ONE change: a fork of the pass-through RNG
#    (used by prop_oneof / flat_map for their lazily generated alternatives) no longer halves the remaining byte window --
#    the child reads on from the parent's position. Without it the window collapses after a few unions and the rest of the
#    case would be generated from zeros (rand's rejection sampling then never terminates).
# Prints the path of the binary on the last line (BUILD-FAILED otherwise). Nothing outside harness/target-fuzz is written.
set -e
V=${LCV_VERIF_SRC:-/verif}
T=${LCV_FUZZ_TARGET_DIR:-/verif/harness/target-fuzz}
PKG=$T/pkg
export CARGO_NET_OFFLINE=true
python3 $V/tools/genroot.py >/dev/null
mkdir -p $PKG/.cargo
PT=$(ls -d /verif/.vendor/proptest-1.* | head -1)
if [ ! -f $PKG/proptest/.patched ] ; then
  rm -rf $PKG/proptest
  cp -rL $PT $PKG/proptest
  rm -f $PKG/proptest/.cargo-checksum.json
  python3 - $PKG/proptest/src/test_runner/rng.rs <<'PY'
import sys,re
p=sys.argv[1]; s=open(p).read()
old="""                let len = *end - *off;
                let child_start = *off + len / 2;
                let child_end = *off + len;
                *end = child_start;
"""
new="""                // lcverif: the child shares the parent's window (see tools/build_fuzz.sh)
                let child_start = (*off + 8).min(*end);
                let child_end = *end;
"""
assert s.count(old)==1, "proptest source changed: PassThrough fork not found"
open(p,'w').write(s.replace(old,new))
PY
  touch $PKG/proptest/.patched
fi
python3 - $V/harness/Cargo.toml $PKG/Cargo.toml $V <<'PY'
import sys,re
src,dst,v=sys.argv[1:4]
s=open(src).read()
# keep only the fuzz test target, with absolute paths
s=re.sub(r'\[\[test\]\]\nname = "lcv"\npath = "tests/lcv.rs"\nharness = false\n','',s)
s=s.replace('path = "tests/lcvfuzz.rs"','path = "%s/harness/tests/lcvfuzz.rs"'%v)
s+='\n[patch.crates-io]\nproptest = { path = "proptest" }\n'
import os
if not os.path.exists(dst) or open(dst).read()!=s: open(dst,'w').write(s)
PY
[ -f $PKG/Cargo.lock ] || cp $V/harness/Cargo.lock $PKG/Cargo.lock
cp $V/harness/.cargo/config.toml $PKG/.cargo/config.toml
cd $PKG
RUSTFLAGS="-Cpasses=sancov-module -Cllvm-args=-sanitizer-coverage-level=4 -Cllvm-args=-sanitizer-coverage-inline-8bit-counters -Cllvm-args=-sanitizer-coverage-pc-table -Cllvm-args=-sanitizer-coverage-trace-compares --cfg fuzzing" \
CARGO_TARGET_DIR=$T cargo build --profile verif --test lcvfuzz --features fuzz --target x86_64-unknown-linux-gnu --message-format=json-render-diagnostics 2>$T/build.err \
 | python3 -c "
import sys,json
exe=None
for l in sys.stdin:
    try: m=json.loads(l)
    except Exception: continue
    if m.get('reason')=='compiler-artifact' and m.get('target',{}).get('name')=='lcvfuzz' and m.get('executable'): exe=m['executable']
print(exe or 'BUILD-FAILED')
"
