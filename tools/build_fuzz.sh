#!/bin/sh
# build_fuzz.sh: builds the coverage-guided engine (tests/lcvfuzz.rs) with sancov instrumentation into harness/target-fuzz;
# prints the path of the binary on the last line
cd /verif/harness || exit 2
export CARGO_NET_OFFLINE=true
python3 /verif/tools/genroot.py >/dev/null
RUSTFLAGS="-Cpasses=sancov-module -Cllvm-args=-sanitizer-coverage-level=4 -Cllvm-args=-sanitizer-coverage-inline-8bit-counters -Cllvm-args=-sanitizer-coverage-pc-table -Cllvm-args=-sanitizer-coverage-trace-compares --cfg fuzzing" \
CARGO_TARGET_DIR=${LCV_FUZZ_TARGET_DIR:-/verif/harness/target-fuzz} cargo build --profile verif --test lcvfuzz --features fuzz --target x86_64-unknown-linux-gnu --message-format=json-render-diagnostics 2>/tmp/build_fuzz.err \
 | python3 -c "
import sys,json
exe=None
for l in sys.stdin:
    try: m=json.loads(l)
    except Exception: continue
    if m.get('reason')=='compiler-artifact' and m.get('target',{}).get('name')=='lcvfuzz' and m.get('executable'): exe=m['executable']
print(exe or 'BUILD-FAILED')
"
