#!/bin/sh
# try_seed.sh <seedID> <Cxx> [quick|thorough]: applies seeded/<seedID>/patch.diff to /repo, runs the check, reverts. 
S=$1; P=$2; T=${3:-quick}
cd /verif
git -C /repo diff --quiet || { echo "/repo has uncommitted changes"; exit 2; }
git -C /repo apply /verif/seeded/$S/patch.diff || { echo "patch does not apply"; exit 2; }
./check $P $T > /tmp/try-$S-$P.out 2>&1; RC=$?
git -C /repo checkout -- .
./check build >/dev/null 2>&1
echo "seed=$S check=$P tier=$T rc=$RC"; grep -E "^VIOLATION|signature:|^\[check\] C" /tmp/try-$S-$P.out | head -6
git checkout -- evidence 2>/dev/null
exit 0
