#!/usr/bin/env python3
"""explore_case.py <Cxx> <signature substring> <out.json>: save the (unshrunk) case of a signature seen by the last tools/explore.sh run"""
import json,glob,sys
P,sub,out=sys.argv[1:4]
best=None
for f in glob.glob('/tmp/explore-%s-*.json'%P):
    v=json.load(open(f))
    for k in v['known']:
        if sub in k['signature']:
            c=json.dumps(k['case'])
            if best is None or len(c)<len(best[1]): best=(k['signature'],c,k['message'])
if not best: sys.exit('not found')
json.dump({"property":P,"signature":best[0],"case":json.loads(best[1])},open(out,'w'))
print(best[0]); print(best[2][:600]); print(len(best[1]),'bytes')
