#!/bin/sh
# Offline setup: build the directory source of all cached crates, then cold-build the harness.
set -e
cd "$(dirname "$0")"
export CARGO_NET_OFFLINE=true
if [ ! -d .vendor ]; then
  python3 tools/mkvendor.py "$(pwd)/.vendor"
fi
[ "$1" = "--vendor-only" ] && exit 0
python3 tools/genroot.py
cd harness && cargo build --profile verif --test lcv 2>&1 | tail -3
